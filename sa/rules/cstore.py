"""Rules over the C attribute setters/getters (symbolic paths):
C01.store-order, C01.store-provenance, C02.prefilter, C02.notify-gates,
C10.silent-default (shared facts)."""
from __future__ import annotations

import re

from ..ccfg import get_ccfg
from ..cfacts import CREL, get_cfacts
from ..core import AnalysisError, rule
from ..cexpr import callee, cnorm, int_value, is_null, strip
from ..csym import feasible_paths

STORES = {"PyDict_SetItem", "call_notifiers", "->post_setattr",
          "post_setattr", "PyObject_GenericSetAttr", "PyDict_SetItemString"}


def split_cmp(text, op):
    """'(A op B)' -> (A, B) splitting at the top-level operator."""
    if not (text.startswith("(") and text.endswith(")")):
        return None
    inner = text[1:-1]
    depth = 0
    tok = f" {op} "
    i = 0
    while i < len(inner):
        c = inner[i]
        if c in "([":
            depth += 1
        elif c in ")]":
            depth -= 1
        elif depth == 0 and inner.startswith(tok, i):
            return inner[:i], inner[i + len(tok):]
        i += 1
    return None


def paths_of(ctx, fname):
    from ..csym import cached_paths, flush_paths
    facts = get_cfacts(ctx)
    g = get_ccfg(ctx, facts, fname)
    ps = cached_paths(ctx, facts, fname)
    flush_paths(ctx)
    if ps is None:
        raise AnalysisError(f"{fname}: too many paths")
    return ps, facts, g


def null_test(text, truth, subject):
    """Is this atom a NULL test of `subject`?  Returns True when the atom
    says "subject is NULL", False when "is not NULL", None otherwise."""
    for op, isnull in (("==", True), ("!=", False)):
        sp = split_cmp(text, op)
        if sp and set(sp) == {"0", subject}:
            return isnull if truth else not isnull
    if text == subject:
        return not truth
    return None


class SetterScan:
    """Scan one symbolic path of a setter."""

    def __init__(self, path, valuep, traitd):
        self.p = path
        self.valuep, self.traitd = valuep, traitd
        self.branch = None          # 'assign' / 'delete'
        self.vstate = "none"
        self.vtext = None
        self.bad_stores = []
        self.stores = []            # (index in trace, item)
        self.scan()

    def scan(self):
        vp, td = self.valuep, self.traitd
        for i, it in enumerate(self.p.trace):
            if it[0] == "atom":
                _, text, truth, nid = it
                if not isinstance(truth, bool):
                    continue
                if self.branch is None:
                    nt = null_test(text, truth, vp)
                    if nt is not None:
                        self.branch = "delete" if nt else "assign"
                        continue
                if self.vstate == "pending" and self.vtext:
                    nt = null_test(text, truth, self.vtext)
                    if nt is not None:
                        self.vstate = "failed" if nt else "ok"
                        continue
                nt = null_test(text, truth, f"{td}->validate")
                if nt is True:
                    self.vstate = "skip"
                sp = split_cmp(text, "!=")
                if sp and set(sp) == {"Undefined", vp} and not truth:
                    self.vstate = "skip"
                sp = split_cmp(text, "==")
                if sp and set(sp) == {"Undefined", vp} and truth:
                    self.vstate = "skip"
            elif it[0] == "call":
                _, cal, args, full, line, stmt = it
                if cal == "->validate" and full.startswith(f"{td}->validate("):
                    self.vstate = "pending"
                    self.vtext = full
                elif cal in STORES:
                    self.stores.append((i, it))
                    if self.branch == "assign" and \
                            self.vstate not in ("ok", "skip"):
                        self.bad_stores.append((it, self.vstate))

    @property
    def V(self):
        """text of the validated value"""
        return self.vtext if self.vstate == "ok" else self.valuep


def default_materialiser(facts):
    """the function that computes and stores a default on first read: the
    getter `getattr_trait` itself or the in-file helper it hands its own
    (trait, obj, name) to"""
    from ..cexpr import callee, var
    f = "getattr_trait"
    for _ in range(3):
        fn = facts.func(f)
        if any(x.kind == "CallExpr" and callee(x) == "default_value_for"
               for x in fn.walk()):
            return f
        ps = [q.name for q in facts.params(f)]
        nxt = [callee(x) for x in fn.walk() if x.kind == "CallExpr"
               and facts.has_func(callee(x)) and len(x.ch) >= 4
               and [var(a) for a in x.ch[1:4]] == ps[:3]]
        if len(nxt) != 1:
            break
        f = nxt[0]
    raise AnalysisError("the default-materialising getter was not found "
                        "(getattr_trait / its helper)")


def _plines(p):
    return [f"{CREL}:{l}" for l in dict.fromkeys(p.lines) if l]


SETTERS = ["setattr_trait", "setattr_event", "setattr_validate_property"]


@rule("C01.store-order", ["C01", "C19"],
      "in the C setters every store/notification of an assigned value is "
      "preceded by a successful validator call (or no validator applies)")
def store_order(ctx, res):
    for fname in SETTERS:
        paths, facts, g = paths_of(ctx, fname)
        params = [p.name for p in facts.params(fname)]
        traitd, valuep = params[1], params[4]
        n_assign = n_val = 0
        reported = set()
        for p in paths:
            sc = SetterScan(p, valuep, traitd)
            if sc.branch != "assign":
                continue
            n_assign += 1
            n_val += sc.vtext is not None
            for it, vs in sc.bad_stores:
                key = f"{fname}:{it[1]}:{vs}"
                if key in reported:
                    continue
                reported.add(key)
                why = {"none": "without calling the trait's validator",
                       "pending": "before the validator's result is checked "
                                  "for NULL",
                       "failed": "after the validator rejected the value"}[vs]
                res.violation(key, f"{CREL}:{it[4]}",
                              f"{fname}: `{it[3][:80]}` is reached {why}",
                              _plines(p))
        res.instance(fname, facts.loc(facts.func(fname)),
                     assign_paths=n_assign, validated_paths=n_val)
        if not reported:
            res.oblige(True, fname, "", "")
        if n_val == 0:
            # no path validates with the *defining* trait: if another
            # trait's validator is consulted instead this is a finding (the
            # accessed trait of a non-modifying delegate has no validator of
            # its own), otherwise the anchor is gone
            other = sorted({it[3].split("->validate(")[0] for p_ in paths
                            for it in p_.trace if it[0] == "call"
                            and it[1] == "->validate"
                            and not it[3].startswith(traitd + "->")})
            if other:
                res.violation(f"{fname}:validator-of-wrong-trait",
                              facts.loc(facts.func(fname)),
                              f"{fname} validates with `{other[0]}->validate`"
                              f", never with `{traitd}->validate`: for a "
                              f"value assigned through a non-modifying "
                              f"delegate (PrototypedFrom) the accessed trait "
                              f"has no validator, so the value is stored "
                              f"unvalidated and unconverted")
            else:
                raise AnalysisError(f"{fname}: no path calls "
                                    f"{traitd}->validate")
    # defaults: computed and NULL-checked before they are stored
    for fname, in ((default_materialiser(get_cfacts(ctx)),),):
        paths, facts, g = paths_of(ctx, fname)
        bad = None
        n = 0
        for p in paths:
            dv = None
            state = "none"
            for it in p.trace:
                if it[0] == "call" and it[1] == "default_value_for":
                    dv, state = it[3], "pending"
                elif it[0] == "atom" and dv and state == "pending":
                    nt = null_test(it[1], it[2], dv)
                    if nt is not None:
                        state = "failed" if nt else "ok"
                elif it[0] == "call" and it[1] in STORES:
                    n += 1
                    if state != "ok":
                        bad = (it, p, state)
        res.instance(fname, facts.loc(facts.func(fname)), stores=n)
        if n == 0:
            raise AnalysisError(f"{fname}: no store of a computed default")
        res.oblige(bad is None, f"{fname}:default-store",
                   f"{CREL}:{bad[0][4]}" if bad else "",
                   f"{fname}: default stored/notified while the default "
                   f"computation is `{bad[2] if bad else ''}`",
                   _plines(bad[1]) if bad else None)
    res.floor(4)


def _flag_atom(bit):
    return f"({bit} & "     # prefix of '(8 & traitd->flags)'


def _role_ok(text, V, orig, bit, traitd, atoms_true):
    """Is `text` the value selected by flag `bit`: original if set else
    validated?"""
    flag = f"({bit} & {traitd}->flags)"
    if text == f"({flag} ? {orig} : {V})":
        return True
    flag_true = atoms_true.get(flag)
    if text == V and V == orig:
        return True
    if text == V and flag_true is not True:
        return flag_true is False or V == orig
    if text == orig and flag_true is True:
        return True
    return False


@rule("C02.prefilter", ["C02", "C01", "C08", "C12", "C11", "C16", "C20"],
      "setattr_trait/setattr_event/getattr_trait: what is stored, what is "
      "compared for identity and what is passed to the notifiers as old/new")
def prefilter(ctx, res):
    facts = get_cfacts(ctx)
    orig_bit = facts.macro_int("TRAIT_SETATTR_ORIGINAL_VALUE")
    post_bit = facts.macro_int("TRAIT_POST_SETATTR_ORIGINAL_VALUE")
    none_bit = facts.macro_int("TRAIT_COMPARISON_MODE_NONE")
    # ---------------- setattr_trait, assignment branch ------------------
    fname = "setattr_trait"
    paths, facts, g = paths_of(ctx, fname)
    params = [p.name for p in facts.params(fname)]
    traito, traitd, objp, namep, valuep = params[:5]
    n_notify = n_silent = 0
    seen = set()

    def viol(key, line, msg, p):
        if key in seen:
            return
        seen.add(key)
        res.violation(f"{fname}:{key}", f"{CREL}:{line}", msg, _plines(p))

    mode_atom = f"({none_bit} & {traitd}->flags)"
    mode_forms = {mode_atom: True, f"(0 != {mode_atom})": True,
                  f"({mode_atom} != 0)": True, f"(0 == {mode_atom})": False,
                  f"({mode_atom} == 0)": False}

    def mode_is_none(atoms_true_):
        """True / False / None: does the path know the comparison-mode bit
        to be set (in any of the equivalent spellings of the test)?"""
        for form, pos in mode_forms.items():
            if form in atoms_true_:
                return atoms_true_[form] == pos
        return None
    for p in paths:
        sc = SetterScan(p, valuep, traitd)
        if sc.branch != "assign" or sc.vstate not in ("ok", "skip"):
            continue
        V = sc.V
        atoms_true = {}
        for t, truth, _ in p.atoms:
            atoms_true.setdefault(t, truth)
        tr = p.trace
        # final store = last PyDict_SetItem on the path
        si = [i for i, it in enumerate(tr)
              if it[0] == "call" and it[1] == "PyDict_SetItem"]
        if not si:
            # an assignment that validated its value and reports success
            # must have stored it (a "nothing changed" shortcut is wrong for
            # values that are only visible through delegation: the first
            # local assignment of a PrototypedFrom attribute stores nothing)
            if p.outcome[0] == "RETURN" and p.outcome[1] == "0" \
                    and sc.vstate == "ok":
                viol("success-without-store", p.lines[-1],
                     f"the assignment branch of {fname} returns success on a "
                     f"path that never stores the validated value in the "
                     f"instance dictionary", p)
            continue
        # the store of the *assigned* value: not the materialisation of the
        # default that may precede it
        si = [i for i in si if len(tr[i][2]) >= 3
              and not tr[i][2][2].startswith("default_value_for(")]
        if not si:
            continue
        fi = si[-1]
        stored = tr[fi][2][2]
        if not _role_ok(stored, V, valuep, orig_bit, traitd, atoms_true):
            viol("stored-value", tr[fi][4],
                 f"the object stored in the instance dict is `{stored}`; "
                 f"expected the validator's result, or the original value "
                 f"only under TRAIT_SETATTR_ORIGINAL_VALUE", p)
        key_ok = len(tr[fi][2]) >= 2 and tr[fi][2][1] == namep
        if not key_ok:
            viol("stored-key", tr[fi][4],
                 f"value stored under `{tr[fi][2][1]}` instead of the "
                 f"attribute name", p)
        after = tr[fi + 1:]
        notes = [it for it in after if it[0] == "call"
                 and it[1] == "call_notifiers"]
        early = [it for it in tr[:fi] if it[0] == "call"
                 and it[1] == "call_notifiers"]
        if early:
            viol("notify-before-store", early[0][4],
                 "call_notifiers is reached before the new value is stored "
                 "(handlers would read the old value)", p)
        store_failed = any(
            it[0] == "atom" and it[2] is True and split_cmp(it[1], "<")
            and split_cmp(it[1], "<")[0].startswith("PyDict_SetItem(")
            and split_cmp(it[1], "<")[0] == tr[fi][3]
            for it in after)
        if store_failed:
            if notes:
                viol("notify-after-failed-store", notes[0][4],
                     "call_notifiers after a failed store", p)
            continue
        # post_setattr argument
        for it in after:
            if it[0] == "call" and it[1] in ("post_setattr", "->post_setattr"):
                a = it[2][-1]
                if not _role_ok(a, V, valuep, post_bit, traitd, atoms_true):
                    viol("post-setattr-value", it[4],
                         f"post_setattr receives `{a}`; expected the "
                         f"validated value (original only under "
                         f"TRAIT_POST_SETATTR_ORIGINAL_VALUE)", p)
        if notes:
            n_notify += 1
            it = notes[0]
            old_a, new_a = it[2][4], it[2][5]
            if new_a != stored:
                viol("new-arg", it[4],
                     f"notifiers receive new=`{new_a}` but `{stored}` was "
                     f"stored", p)
            if not (old_a.startswith("PyDict_GetItem(")
                    or old_a.startswith("default_value_for(")
                    or "->getattr(" in old_a):
                viol("old-arg", it[4],
                     f"notifiers receive old=`{old_a}`, which is not the "
                     f"previously stored value / materialised default", p)
            # why did we notify: mode none, or identity test true
            if mode_is_none(atoms_true) is not True:
                ident = [t for t, truth, _ in p.atoms if truth is True
                         and split_cmp(t, "!=")
                         and set(split_cmp(t, "!=")) == {old_a, V}]
                if not ident:
                    viol("identity-test", it[4],
                         f"notification neither under comparison mode 'none' "
                         f"nor after an identity test `old != validated "
                         f"value` between `{old_a}` and `{V}`", p)
            # nothing but the documented gates after the store
        else:
            n_silent += 1
        # gates after the store
        blockers = 0
        for a in after:
            if a[0] != "atom" or not isinstance(a[2], bool):
                continue
            t, truth = a[1], a[2]
            cat = _gate_category(t, traitd, mode_atom, V)
            if cat is None:
                viol(f"unexpected-gate:{_abbr(t)}", g.nodes[a[3]].line,
                     f"after the store, control depends on `{t[:120]}`, "
                     f"which is not one of the documented gates of "
                     f"notification (comparison mode / identity, "
                     f"post_setattr result, presence of notifiers)", p)
            elif cat in ("mode", "identity", "rc", "has-notifiers") \
                    and truth is False:
                blockers += 1
        if not notes and blockers == 0:
            viol("silent-path", tr[fi][4],
                 "a successful assignment ends without call_notifiers "
                 "although no documented gate is false on the path", p)
    # ---------------- setattr_trait, deletion branch ----------------------
    no_notify = facts.macro_int("HASTRAITS_NO_NOTIFY")
    getter_table = {m for m in facts.table("getattr_handlers") if m}
    getters = set(getter_table)
    from ..cexpr import callee as _callee, var as _var
    for m in sorted(getter_table):
        if not facts.has_func(m):
            continue
        ps_m = [q.name for q in facts.params(m)]
        for x in facts.func(m).walk():
            # helper called with the getter's own (trait, obj, name)
            if x.kind == "CallExpr" and facts.has_func(_callee(x)) \
                    and len(x.ch) >= 4 and [
                        _var(a) for a in x.ch[1:4]] == ps_m[:3]:
                getters.add(_callee(x))
    n_del = 0
    for p in paths:
        sc = SetterScan(p, valuep, traitd)
        if sc.branch != "delete":
            continue
        tr = p.trace
        di = [i for i, it in enumerate(tr) if it[0] == "call"
              and it[1] == "PyDict_DelItem"]
        if not di:
            continue
        after = tr[di[-1] + 1:]
        if any(it[0] == "atom" and it[2] is True and split_cmp(it[1], "<")
               and split_cmp(it[1], "<")[0].startswith("PyDict_DelItem(")
               for it in after):
            continue            # the deletion itself failed
        n_del += 1
        old_t = f"PyDict_GetItem({objp}->obj_dict, {namep})"
        # the value now readable: obtained through the getter slot or
        # directly through one of the getters / their in-file helpers
        newv = [it[3] for it in after if it[0] == "call"
                and (it[1] == "->getattr" or it[1] in getters)
                and len(it[2]) >= 3 and it[2][1] == objp
                and it[2][2] == namep]
        notes = [it for it in after if it[0] == "call"
                 and it[1] == "call_notifiers"]
        for it in notes:
            if it[2][4] != old_t:
                viol("delete:old-arg", it[4],
                     f"deletion notifies with old=`{it[2][4][:60]}` instead "
                     f"of the value that was stored", p)
            if not newv or it[2][5] != newv[0]:
                viol("delete:new-arg", it[4],
                     f"deletion notifies with new=`{it[2][5][:60]}` instead "
                     f"of the value now readable (the default)", p)
        for a in after:
            if a[0] != "atom" or not isinstance(a[2], bool):
                continue
            t = a[1]
            ok = (t == f"({no_notify} & {objp}->flags)"
                  or (split_cmp(t, "<") and split_cmp(t, "<")[0].startswith(
                      "PyDict_DelItem("))
                  or "->notifiers" in t
                  or (newv and null_test(t, a[2], newv[0]) is not None)
                  or t in mode_forms
                  or (split_cmp(t, "==") and "->getattr" in t and any(
                      x in getter_table for x in split_cmp(t, "==")))
                  or (newv and split_cmp(t, "!=")
                      and set(split_cmp(t, "!=")) == {old_t, newv[0]})
                  or _gate_category(t, traitd, mode_atom,
                                    newv[0] if newv else "?") in (
                      "post-present", "rc", "has-notifiers"))
            if not ok:
                viol(f"delete:unexpected-gate:{_abbr(t)}",
                     g.nodes[a[3]].line,
                     f"after deleting the stored value, control depends on "
                     f"`{t[:110]}`, which is not one of the documented gates "
                     f"of notification (notifications enabled, presence of "
                     f"notifiers, comparison mode / identity of old and the "
                     f"default, post_setattr result)", p)
    res.instance(f"{fname}:delete", facts.loc(facts.func(fname)),
                 deleting_paths=n_del)
    if n_del == 0:
        raise AnalysisError("setattr_trait: deletion branch not recognised")
    res.instance(f"{fname}:assign", facts.loc(facts.func(fname)),
                 notifying_paths=n_notify, silent_paths=n_silent)
    if n_notify == 0 and not seen:
        raise AnalysisError("setattr_trait: no notifying path recognised")
    if not seen:
        res.oblige(True, fname, "", "")

    # ---------------- setattr_event -----------------------------------------
    fname = "setattr_event"
    paths, facts, g = paths_of(ctx, fname)
    params = [p.name for p in facts.params(fname)]
    traitd, valuep = params[1], params[4]
    n = 0
    for p in paths:
        sc = SetterScan(p, valuep, traitd)
        for it in p.trace:
            if it[0] == "call" and it[1] == "call_notifiers":
                n += 1
                res.oblige(it[2][4] == "Undefined", f"{fname}:old-arg",
                           f"{CREL}:{it[4]}",
                           f"Event notification passes old=`{it[2][4]}` "
                           f"instead of Undefined", _plines(p))
                res.oblige(it[2][5] == sc.V, f"{fname}:new-arg",
                           f"{CREL}:{it[4]}",
                           f"Event notification passes new=`{it[2][5]}` "
                           f"instead of the validated value `{sc.V}`",
                           _plines(p))
        # an event fires whenever there are notifiers: no other gate
        if sc.branch == "assign" and sc.vstate in ("ok", "skip"):
            for a in p.trace:
                if a[0] == "atom" and isinstance(a[2], bool):
                    t = a[1]
                    if null_test(t, a[2], valuep) is not None or \
                            null_test(t, a[2], f"{traitd}->validate") is not None \
                            or (sc.vtext and null_test(t, a[2], sc.vtext) is not None) \
                            or "->notifiers" in t:
                        continue
                    res.violation(f"{fname}:unexpected-gate:{_abbr(t)}",
                                  f"{CREL}:{g.nodes[a[3]].line}",
                                  f"Event assignment depends on `{t[:100]}`: "
                                  f"events must fire on every assignment",
                                  _plines(p))
    res.instance(fname, facts.loc(facts.func(fname)), notifying_paths=n)
    if n == 0:
        raise AnalysisError("setattr_event: no notifying path")

    # ---------------- getattr_trait (first read of a default) ---------------
    fname = default_materialiser(get_cfacts(ctx))
    paths, facts, g = paths_of(ctx, fname)
    n = silent = 0
    for p in paths:
        dv = [it for it in p.trace if it[0] == "call"
              and it[1] == "default_value_for"]
        for it in p.trace:
            if it[0] == "call" and it[1] == "call_notifiers":
                n += 1
                res.oblige(it[2][4] == "Uninitialized", f"{fname}:old-arg",
                           f"{CREL}:{it[4]}",
                           f"default materialisation notifies with "
                           f"old=`{it[2][4]}` instead of Uninitialized (the "
                           f"sentinel both Python filters drop)", _plines(p))
                res.oblige(bool(dv) and it[2][5] == dv[0][3],
                           f"{fname}:new-arg", f"{CREL}:{it[4]}",
                           "default notification does not pass the computed "
                           "default", _plines(p))
        if p.outcome[0] == "RETURN" and dv and p.outcome[1] == dv[0][3]:
            stored = [it for it in p.trace if it[0] == "call"
                      and it[1] == "PyDict_SetItem" and it[2][2] == dv[0][3]]
            res.oblige(bool(stored), f"{fname}:stored-once",
                       f"{CREL}:{p.lines[-1]}",
                       "a default is returned without being stored in the "
                       "instance dict (it would be recomputed on each read)",
                       _plines(p))
            # silence has exactly two reasons: the caller's gate parameter
            # was false, or there is no notifier at either level
            if not any(it[0] == "call" and it[1] == "call_notifiers"
                       for it in p.trace):
                gates = [q.name for q in facts.params(fname)
                         if (q.type or "").strip() == "int"]
                atoms = [(it[1], it[2]) for it in p.trace if it[0] == "atom"]
                why = [t for t, v in atoms
                       if (t in gates and not v)
                       or ("->notifiers" in t and (
                           (t.startswith("(0 != ") and not v)
                           or (t.startswith("(0 == ") and v)
                           or ("PyList_GET_SIZE" in t and not v)))]
                silent += 1
                res.oblige(bool(why), f"{fname}:silent-reason",
                           f"{CREL}:{p.lines[-1]}",
                           f"a path of {fname} stores and returns a new "
                           f"default without announcing (Uninitialized -> "
                           f"default) although the caller asked for "
                           f"notification and notifiers may be present; the "
                           f"path's conditions: "
                           f"{[(_abbr(t), v) for t, v in atoms[-4:]]} - the "
                           f"observer maintainers rely on this event to "
                           f"hook a default value", _plines(p))
    res.instance(fname, facts.loc(facts.func(fname)), notifying_paths=n,
                 silent_paths=silent)
    if silent == 0:
        raise AnalysisError(f"{fname}: no silent path recognised")
    res.floor(4)


def _abbr(t):
    return re.sub(r"[^A-Za-z0-9_>!=<&-]+", "", t)[:40]


def _gate_category(t, traitd, mode_atom, V):
    if t in (mode_atom, f"(0 != {mode_atom})", f"({mode_atom} != 0)",
             f"(0 == {mode_atom})", f"({mode_atom} == 0)"):
        return "mode"
    sp = split_cmp(t, "!=")
    if sp and V in sp and (sp[0].startswith(("PyDict_GetItem(",
                                              "default_value_for("))
                           or sp[1].startswith(("PyDict_GetItem(",
                                                "default_value_for("))
                           or "->getattr(" in t):
        return "identity"
    if null_test(t, True, f"{traitd}->post_setattr") is not None:
        return "post-present"
    sp = split_cmp(t, "==")
    if sp and "0" in sp:
        other = sp[0] if sp[1] == "0" else sp[1]
        if other == "0" or "post_setattr(" in other:
            return "rc"
    if "->notifiers" in t:
        return "has-notifiers"
    sp = split_cmp(t, "<")
    if sp and sp[1] == "0" and sp[0].startswith("PyDict_SetItem("):
        return "store-result"
    return None


@rule("C04.ctrait-validate", ["C04", "C01"],
      "CTrait.validate (the entry every container element validator goes "
      "through) runs the trait's validator for every value whenever one is "
      "set, and returns its result")
def ctrait_validate(ctx, res):
    paths, facts, g = paths_of(ctx, "_trait_validate")
    params = [p.name for p in facts.params("_trait_validate")]
    traitp = params[0]
    n = 0
    for p in paths:
        if p.outcome[0] != "RETURN" or p.outcome[1] == "0":
            continue
        n += 1
        rv = p.outcome[1]
        has_validator = None
        for t, truth, _ in p.atoms:
            nt = null_test(t, truth, f"{traitp}->validate")
            if nt is not None:
                has_validator = not nt
        calls = [e for e in p.events if e[0] == "->validate"]
        key = "_trait_validate"
        if has_validator is False:
            res.oblige(not calls, key + ":no-validator",
                       f"{CREL}:{p.lines[-1]}", "validator called although "
                       "none is set")
            continue
        ok = bool(calls) and rv == calls[-1][2]
        res.oblige(ok, key + ":validated", f"{CREL}:{p.lines[-1]}",
                   f"a path of CTrait.validate returns `{rv[:60]}` without "
                   f"(the result of) `{traitp}->validate(...)` although a "
                   f"validator is set: some values bypass validation when "
                   f"used as container elements",
                   _plines(p))
        # only the NULL test of the validator may select the bypass
        extra = [t for t, truth, _ in p.atoms
                 if null_test(t, truth, f"{traitp}->validate") is None
                 and not t.startswith("PyArg_ParseTuple(")]
        res.oblige(not extra, key + ":unexpected-gate",
                   f"{CREL}:{p.lines[-1]}",
                   f"CTrait.validate depends on `{extra[0][:80] if extra else ''}`"
                   f": validation must not be skipped for particular values",
                   _plines(p))
    res.instance("_trait_validate", facts.loc(facts.func("_trait_validate")),
                 returning_paths=n)
    if n < 2:
        raise AnalysisError("_trait_validate: accepting paths not recognised")
    # the argument order handed to the validator: (trait, object, name, value)
    res.floor(1)


# ---------------------------------------------------------------------------
# C02.single-notification: one operation announces (obj, name) at most once

def _gate_param(ctx, facts, fname):
    """index of an int parameter that is non-zero on every path of ``fname``
    that reaches call_notifiers (the notification is switched by it)"""
    params = [p.name for p in facts.params(fname)]
    ps, _, _ = paths_of(ctx, fname)
    gates = None
    for p in ps:
        if not any(it[0] == "call" and it[1] == "call_notifiers"
                   for it in p.trace):
            continue
        true_params = {a[0] for a in p.atoms if a[1] is True
                       and a[0] in params}
        gates = true_params if gates is None else gates & true_params
    if gates:
        return params.index(sorted(gates)[0])
    return None


def _announcers_gated(ctx, facts):
    from ..cexpr import callee, var
    direct = {}
    for fname in facts.defined_functions():
        if fname == "call_notifiers":
            continue
        params = [p.name for p in facts.params(fname)]
        for x in facts.func(fname).walk():
            if x.kind == "CallExpr" and callee(x) == "call_notifiers" \
                    and len(x.ch) >= 5:
                o, n = var(x.ch[3]), var(x.ch[4])
                if o in params and n in params:
                    direct[fname] = (params.index(o), params.index(n),
                                     _gate_param(ctx, facts, fname))
    out = dict(direct)
    changed = True
    while changed:
        changed = False
        for fname in facts.defined_functions():
            if fname in out or fname == "call_notifiers":
                continue
            params = [p.name for p in facts.params(fname)]
            for x in facts.func(fname).walk():
                if x.kind == "CallExpr" and callee(x) in out:
                    oi, ni, gi = out[callee(x)]
                    args = x.ch[1:]
                    if gi is not None and gi < len(args) \
                            and int_value(args[gi]) == 0:
                        continue
                    if oi < len(args) and ni < len(args):
                        o, n = var(args[oi]), var(args[ni])
                        if o in params and n in params:
                            out[fname] = (params.index(o), params.index(n),
                                          None)
                            changed = True
    return out


@rule("C02.single-notification", ["C02", "C08", "C12"],
      "one get/set/delete operation announces a new value of (obj, name) at "
      "most once: no path of a C getter/setter reaches two notification "
      "sites that report the same new value for the same pair (raw notifiers "
      "such as the observer maintainers are not filtered and would hook the "
      "value up twice)")
def single_notification(ctx, res):
    facts = get_cfacts(ctx)
    ann = _announcers_gated(ctx, facts)
    if "getattr_trait" not in ann and "materialize_default" not in ann:
        raise AnalysisError("no announcing getter found (anchor moved)")
    slot_tables = {"->getattr": "getattr_handlers",
                   "->setattr": "setattr_handlers"}
    n = 0
    for fname in facts.defined_functions():
        params = [p.name for p in facts.params(fname)]
        fn = facts.func(fname)
        if not any(x.kind == "CallExpr" and (
                callee_name(x) == "call_notifiers"
                or callee_name(x) in ann or callee_name(x) in slot_tables)
                for x in fn.walk()):
            continue
        if fname not in ann and not (fname.startswith(("setattr_", "getattr_"))
                                     or fname == "trait_property_changed"):
            continue
        ps, _, _ = paths_of(ctx, fname)
        worst = None
        for p in ps:
            sites = []
            for it in p.trace:
                if it[0] != "call":
                    continue
                _, c, args, full, line, stmt = it
                if c == "call_notifiers" and len(args) >= 6:
                    sites.append((args[2], args[3], args[5], line, c))
                elif c in ann:
                    oi, ni, gi = ann[c]
                    if gi is not None and gi < len(args) and args[gi] == "0":
                        continue        # notification switched off
                    if oi < len(args) and ni < len(args):
                        # an announcing getter announces its own result
                        sites.append((args[oi], args[ni], full, line, c))
                elif c in slot_tables and len(args) >= 3:
                    # a call through the handler slot: any table member the
                    # path has not excluded
                    members = [m for m in facts.table(slot_tables[c])
                               if m in ann]
                    recv = full.split("(", 1)[0]        # e.g. traito->getattr
                    excluded = {a[0] for a in p.atoms
                                if a[1] is False and "==" in a[0]}
                    live = [m for m in members if not any(
                        m in e and recv in e for e in excluded)]
                    if live:
                        oi, ni, _g = ann[live[0]]
                        # slots take (trait, obj, name) / (traito, traitd,
                        # obj, name, value)
                        if oi < len(args) and ni < len(args):
                            sites.append((args[oi], args[ni], full, line,
                                          f"{recv} (may be {live[0]})"))
            by_pair = {}
            for o, nm, newv, line, what in sites:
                by_pair.setdefault((o, nm, newv), []).append((line, what))
            for pair, ss in by_pair.items():
                if len(ss) > 1 and (worst is None or len(ss) > len(worst[1])):
                    worst = (pair, ss, p)
        n += 1
        res.instance(fname, facts.loc(fn), paths=len(ps))
        if worst is None:
            res.oblige(True, fname, "", "")
            continue
        pair, ss, p = worst
        res.violation(f"{fname}:notified-twice", f"{CREL}:{ss[1][0]}",
                      f"{fname}: one path announces the same new value "
                      f"`{pair[2][:50]}` for ({pair[0]}, {pair[1]}) "
                      f"{len(ss)} times: "
                      + "; ".join(f"line {l}: {w}" for l, w in ss)
                      + " - raw notifiers (observer maintainers) see the "
                      "same value arrive twice and hook it up twice; when it "
                      "is later replaced one hook stays behind",
                      [f"{CREL}:{l}" for l in dict.fromkeys(p.lines) if l])
    res.floor(5)


def callee_name(x):
    from ..cexpr import callee
    return callee(x)



# ---------------------------------------------------------------------------
# shared summary: does a call text denote a newly created object?

def fresh_oracle(ctx, facts):
    """is_fresh(text): the text starts with a call of an API that returns a
    new reference, or of an in-file function all of whose successful paths
    return such a value (so a block extracted into a helper stays visible)"""
    def compute():
        import re as _re
        from ..capi import API
        memo = {}

        def head(t):
            m = _re.match(r"([A-Za-z_]\w*)\(", t)
            return m.group(1) if m else None

        def returns_fresh(f, depth=0):
            if f in memo:
                return memo[f]
            memo[f] = False
            if depth > 3 or not facts.has_func(f):
                return False
            try:
                ps_f, _, _ = paths_of(ctx, f)
            except AnalysisError:
                return False
            ok_all, some = True, False
            for p_ in ps_f:
                if p_.outcome[0] != "RETURN" or p_.outcome[1] in ("0", ""):
                    continue
                some = True
                if not is_fresh(p_.outcome[1], depth + 1):
                    ok_all = False
            memo[f] = ok_all and some
            return memo[f]

        def is_fresh(rv, depth=0):
            if _re.match(r"\w+->validate\(", rv):
                return True
            h = head(rv)
            if h is None:
                return False
            if h in API:
                return API[h]["ret"] == "new"
            return returns_fresh(h, depth)
        return is_fresh
    return ctx.memo("fresh-oracle", compute)


# ---------------------------------------------------------------------------
# C02.notifier-role: a setattr handler gets two traits: the one the attribute
# was accessed through (first parameter; observers and static handlers of
# (obj, name) live on it) and the one that validates / stores after
# delegation has been resolved (second parameter).  The trait-level notifier
# list announced to must be the first one's on every branch.

@rule("C02.notifier-role", ["C02", "C08", "C11"],
      "every setattr handler takes the trait-level notifier list from the "
      "trait the attribute was accessed through (its first parameter), never "
      "from the resolved delegation target")
def notifier_role(ctx, res):
    facts = get_cfacts(ctx)
    handlers = sorted({f for f in facts.table("setattr_handlers") if f})
    n = 0
    for fname in handlers:
        if not facts.has_func(fname):
            raise AnalysisError(f"setattr handler {fname} not defined")
        ps = facts.params(fname)
        tparams = [p.name for p in ps if "trait_object" in (p.type or "")
                   and "has_traits" not in (p.type or "")]
        if len(tparams) < 2:
            continue
        # resolved through the symbolic paths: locals (`tnotifiers`, an alias
        # of a trait parameter) are replaced by what they hold
        paths, _f, _g = paths_of(ctx, fname)
        seen = {}
        for p in paths:
            for it in p.trace:
                if it[0] != "call" or it[1] != "call_notifiers":
                    continue
                a0 = it[2][0]
                m = re.fullmatch(r"(\w+)->notifiers", a0)
                if not m or m.group(1) not in tparams:
                    continue
                seen.setdefault((m.group(1), it[4]), p)
        for (who, line), p in sorted(seen.items()):
            n += 1
            key = f"{fname}:{who}->notifiers"
            res.instance(key, f"{CREL}:{line}")
            res.oblige(who == tparams[0], key, f"{CREL}:{line}",
                       f"{fname} announces to `{who}->notifiers`: observers "
                       f"of (obj, name) are attached to `{tparams[0]}`, the "
                       f"trait the attribute was accessed through; for a "
                       f"delegated or prototyped attribute `{who}` is the "
                       f"target object's trait, so the change is not "
                       f"reported (or is reported to the wrong observers)",
                       _plines(p))
    res.floor(3)


# ---------------------------------------------------------------------------
# C02.exact-type-identity: the numeric conversion helpers behind Int / Float /
# Complex / Range (`as_integer`, `validate_float`, `validate_complex_number`)
# hand back *the argument itself* when it already has the exact target type.
# The setters decide "changed" by identity first; a fresh copy of an equal
# float makes every re-assignment of the same NaN (or of any value under
# identity comparison) a change.  Structural part: every path that returns a
# newly created object has failed the exact-type test of the argument, and a
# path returning the argument exists.

@rule("C02.exact-type-identity", ["C02", "C03"],
      "a C numeric conversion helper creates a new object only on paths "
      "where the exact-type test of its argument failed; an argument of the "
      "exact type is returned as the same object")
def exact_type_identity(ctx, res):
    from ..csym import cached_paths
    facts = get_cfacts(ctx)
    n = 0
    for fname in facts.defined_functions():
        ps = facts.params(fname)
        t = facts.func(fname).type or ""
        if len(ps) != 1 or "PyObject *" not in (ps[0].type or "") \
                or "PyObject *" not in t.split("(")[0]:
            continue
        par = ps[0].name
        paths = cached_paths(ctx, facts, fname)
        if paths is None:
            continue
        rets = [p for p in paths if p.outcome[0] == "RETURN"]
        conv = [p for p in rets
                if re.match(r"Py(Float_From|Long_From|Number_Long|Number_Float"
                            r"|Complex_From)", p.outcome[1])
                and par in p.outcome[1]]
        if not conv:
            continue
        n += 1
        res.instance(fname, facts.loc(facts.func(fname)),
                     converting_paths=len(conv))
        exact = re.compile(r"Py_IS_TYPE\(%s, &Py\w+_Type\)" % re.escape(par))
        same = [p for p in rets if p.outcome[1] == par
                and any(it[0] == "atom" and exact.fullmatch(it[1]) and it[2]
                        for it in p.trace)]
        res.oblige(bool(same), f"{fname}:exact-returns-argument",
                   facts.loc(facts.func(fname)),
                   f"{fname} has no path that returns `{par}` itself after "
                   f"the exact-type test succeeded: every assignment stores "
                   f"a copy, so re-assigning the same object is seen as a "
                   f"change under identity comparison (and always for NaN)")
        for p in conv:
            failed = any(it[0] == "atom" and exact.fullmatch(it[1])
                         and not it[2] for it in p.trace)
            res.oblige(failed, f"{fname}:copy-only-after-exact-test-failed",
                       f"{CREL}:{p.lines[-1]}",
                       f"{fname} returns the new object "
                       f"`{p.outcome[1][:60]}` on a path that did not test "
                       f"(and fail) the exact type of `{par}`", _plines(p))
    res.floor(3)


# ---------------------------------------------------------------------------
# C19.undo-on-failure: a setattr handler that has already changed the object's
# dictionary entry for the name (delete or store) and then fails because a
# value-producing callback (default method / factory through the default
# materialiser, or a getter slot) returned NULL must put the previous entry
# back before reporting the failure: "the operation has no effect at all".

@rule("C19.undo-on-failure", ["C19"],
      "when a setattr handler fails because a value-producing callback "
      "returned NULL after the instance dictionary entry was already deleted "
      "or replaced, the previous entry is restored before the failure is "
      "returned")
def undo_on_failure(ctx, res):
    facts = get_cfacts(ctx)
    handlers = sorted({f for f in facts.table("setattr_handlers") if f})
    getters = {f for f in facts.table("getattr_handlers") if f}
    n = 0
    for fname in handlers:
        fn = facts.func(fname)
        if not any(x.kind == "CallExpr" and "PyDict_DelItem" in facts.text(x)
                   or x.kind == "CallExpr" and "PyDict_SetItem" in facts.text(x)
                   for x in fn.walk()):
            continue
        paths, _f, _g = paths_of(ctx, fname)
        bad = None
        checked = 0
        for p in paths:
            if p.outcome[0] != "RETURN":
                continue
            tr = p.trace
            calls = {it[3]: it[1] for it in tr if it[0] == "call"}
            mut = None
            for i, it in enumerate(tr):
                if it[0] == "call" and it[1] in ("PyDict_DelItem",
                                                 "PyDict_SetItem"):
                    # succeeded?
                    failed = any(a[0] == "atom" and a[1].startswith(
                        f"({it[3]} < 0)") and a[2] for a in tr[i + 1:i + 3])
                    if not failed and mut is None:
                        mut = (i, it)
            if mut is None:
                continue
            i0, m = mut
            fail_at = None
            for j in range(i0 + 1, len(tr)):
                a = tr[j]
                if a[0] == "atom" and a[2] is True \
                        and a[1].startswith("(0 == ") and a[1].endswith(")"):
                    x = a[1][len("(0 == "):-1]
                    c = calls.get(x)
                    if c is None:
                        continue
                    ptr = (facts.has_func(c) and "*" in (
                        facts.func(c).type or "").split("(")[0]) \
                        or c == "->getattr" or c in getters
                    if ptr:
                        fail_at = (j, x)
                        break
            if fail_at is None:
                continue
            checked += 1
            dict_arg, key_arg = m[2][0], m[2][1]
            restored = any(
                it[0] == "call" and it[1] == "PyDict_SetItem"
                and it[2][0] == dict_arg and it[2][1] == key_arg
                for it in tr[fail_at[0] + 1:])
            if not restored and bad is None:
                bad = (m, fail_at[1], p)
        if not checked:
            continue
        n += 1
        res.instance(fname, facts.loc(fn), failing_paths=checked)
        res.oblige(bad is None, f"{fname}:restore-after-"
                   + (bad[0][1] if bad else "mutation"),
                   f"{CREL}:{bad[2].lines[-1]}" if bad else "",
                   f"{fname}: after `{bad[0][3][:60] if bad else ''}` "
                   f"succeeded, `{bad[1][:60] if bad else ''}` returns NULL "
                   f"(a default method, factory or getter raised) and the "
                   f"function reports the failure without putting the "
                   f"previous entry back: the operation raised *and* changed "
                   f"the object", _plines(bad[2]) if bad else None)
    res.floor(1)


# ---------------------------------------------------------------------------
# C05.items-event-delivered: `trait_items_event` (C: _has_traits_items_event)
# is the single channel through which List / Dict / Set in-place mutations
# reach `<name>_items` listeners - trait-level, object-level (anytrait) and
# static ones alike.  Whether anybody listens is decided by the event trait's
# setter (setattr_event looks at both notifier lists), not here: every path
# that reports success has handed the event to the installed trait's setter.

@rule("C05.items-event-delivered", ["C05", "C06", "C07"],
      "every successful path of trait_items_event hands the event object to "
      "the `<name>_items` trait's setter (no shortcut that looks at one "
      "notifier list only)")
def items_event_delivered(ctx, res):
    fname = "_has_traits_items_event"
    paths, facts, g = paths_of(ctx, fname)
    ok_paths = 0
    bad = None
    def always_null(text):
        m = re.fullmatch(r"(\w+)\(.*\)", text)
        if not m or not facts.has_func(m.group(1)):
            return False
        ps_, _a, _b = paths_of(ctx, m.group(1))
        rets = [q.outcome[1] for q in ps_ if q.outcome[0] == "RETURN"]
        return bool(rets) and all(r in ("0", "NULL") for r in rets)
    for p in paths:
        if p.outcome[0] != "RETURN" or p.outcome[1] in ("0", "NULL") \
                or always_null(p.outcome[1]):
            continue
        ok_paths += 1
        fired = [it for it in p.trace if it[0] == "call"
                 and it[1] == "->setattr"]
        if not fired and bad is None:
            bad = p
    if ok_paths == 0:
        raise AnalysisError(f"{fname}: no successful path")
    res.instance(fname, facts.loc(facts.func(fname)), success_paths=ok_paths)
    atoms = [(a[1][:50], a[2]) for a in bad.trace if a[0] == "atom"][-3:] \
        if bad else []
    res.oblige(bad is None, f"{fname}:success-without-event",
               f"{CREL}:{bad.lines[-1]}" if bad else "",
               f"{fname} returns success without calling the items trait's "
               f"setter (last conditions: {atoms}): listeners that are not "
               f"in the list that was consulted - e.g. an object-level "
               f"`on_trait_change(handler)` - never see the in-place change",
               _plines(bad) if bad else None)
    res.floor(1)


# ---------------------------------------------------------------------------
# C02.gate-complete: a non-empty notifier list always opens the gate

@rule("C02.gate-complete", ["C02", "C08", "C16"],
      "every condition of the C core that consults both notifier lists (the "
      "trait's and the object's) before calling call_notifiers lets the call "
      "happen whenever at least one of the two lists is non-empty: decided "
      "over the nine combinations {NULL, empty, non-empty}^2, every other "
      "test of the condition taken as favourable")
def gate_complete(ctx, res):
    facts = get_cfacts(ctx)
    STATES = ("null", "empty", "some")

    def nvars(e):
        out = []
        for x in e.walk():
            t = None
            if x.kind == "MemberExpr" and x.name == "notifiers":
                t = cnorm(x)
            elif x.kind == "DeclRefExpr" and "notifiers" in (x.ref or "") \
                    and x.refkind != "FunctionDecl":
                t = x.ref
            if t and t not in out:
                out.append(t)
        return out

    class Crash(Exception):
        pass

    def ev(e, env):
        """True / False / None (unknown, favourable)"""
        s = strip(e)
        if s is None:
            return None
        if s.kind == "BinaryOperator" and s.op in ("&&", "||"):
            a = ev(s.ch[0], env)
            if s.op == "&&":
                if a is False:
                    return False
                b = ev(s.ch[1], env)
                return False if b is False else (True if a and b else None)
            if a is True:
                return True
            b = ev(s.ch[1], env)
            return True if b is True else (False if a is False and b is False
                                           else None)
        if s.kind == "UnaryOperator" and s.op == "!":
            a = ev(s.ch[0], env)
            return None if a is None else not a
        if s.kind == "ConditionalOperator" and len(s.ch) == 3:
            c = ev(s.ch[0], env)
            if c is None:
                a, b = ev(s.ch[1], env), ev(s.ch[2], env)
                return a if a == b else None
            return ev(s.ch[1] if c else s.ch[2], env)
        if s.kind == "BinaryOperator" and s.op in ("==", "!=", ">", ">=", "<",
                                                   "<="):
            l, r = val(s.ch[0], env), val(s.ch[1], env)
            if l is None or r is None:
                return None
            return {"==": l == r, "!=": l != r, ">": l > r, ">=": l >= r,
                    "<": l < r, "<=": l <= r}[s.op]
        v = val(s, env)
        return None if v is None else bool(v)

    def val(e, env):
        """abstract value: ('ptr', state) compared as 0 / 1, sizes 0 / 1"""
        s = strip(e)
        if s is None:
            return None
        k = int_value(s)
        if k is not None:
            return k
        if is_null(s):
            return 0
        t = cnorm(s) if s.kind == "MemberExpr" else (
            s.ref if s.kind == "DeclRefExpr" else None)
        if t in env:
            return 0 if env[t] == "null" else 1
        if s.kind == "CallExpr" and callee(s) in ("PyList_GET_SIZE",
                                                  "PyList_Size", "Py_SIZE"):
            a = strip(s.ch[1])
            ta = cnorm(a) if a.kind == "MemberExpr" else getattr(a, "ref", None)
            if ta in env:
                if env[ta] == "null":
                    raise Crash(ta)
                return 0 if env[ta] == "empty" else 1
        if s.kind == "ConditionalOperator" and len(s.ch) == 3:
            c = ev(s.ch[0], env)
            if c is None:
                return None
            return val(s.ch[1] if c else s.ch[2], env)
        return None
    n_gates = 0
    for fname in sorted(facts.defined_functions()):
        fn = facts.func(fname)
        if not any(c.kind == "CallExpr" and callee(c) == "call_notifiers"
                   for c in fn.walk()):
            continue
        g = get_ccfg(ctx, facts, fname)
        roots = {}
        for n in g.nodes:
            if n.kind == "cond" and n.info is not None:
                roots.setdefault(id(n.info), n.info)
        # a flag local that holds the outcome of such a test
        for x in fn.walk():
            rhs = None
            if x.kind == "BinaryOperator" and x.op == "=" and len(x.ch) == 2 \
                    and strip(x.ch[0]).kind == "DeclRefExpr":
                rhs = x.ch[1]
            elif x.kind == "VarDecl" and x.ch and (x.type or "").startswith(
                    ("int", "long", "_Bool", "bool")):
                rhs = x.ch[-1]
            if rhs is not None and len(nvars(rhs)) == 2:
                roots.setdefault(id(rhs), rhs)
        # polarity: `if (!gate) return ...;` guards the call from the other
        # side - the condition must then not be *true* when a list is
        # non-empty
        inverted = set()
        for x in fn.walk():
            if x.kind == "IfStmt" and x.ch and id(x.ch[0]) in roots:
                def has_call(n):
                    return n is not None and any(
                        c.kind == "CallExpr" and callee(c) == "call_notifiers"
                        for c in n.walk())
                then = x.ch[1] if len(x.ch) > 1 else None
                other = x.ch[2] if len(x.ch) > 2 else None
                if not has_call(then) and (has_call(other) or any(
                        c.kind in ("ReturnStmt", "GotoStmt")
                        for c in then.walk())):
                    inverted.add(id(x.ch[0]))
        for rid, root in roots.items():
            vs = nvars(root)
            if len(vs) != 2:
                continue
            n_gates += 1
            key = f"{fname}:{root.line}"
            bad = None
            closes = True if rid in inverted else False
            for a in STATES:
                for b in STATES:
                    if "some" not in (a, b):
                        continue
                    try:
                        r = ev(root, {vs[0]: a, vs[1]: b})
                    except Crash as c:
                        bad = (a, b, f"reads the size of `{c}` which is NULL")
                        break
                    if r is closes:
                        bad = (a, b, "is true (and the function leaves "
                               "before the call)" if closes else "is false")
                        break
                if bad:
                    break
            res.instance(f"{fname}:gate", facts.loc(root), lists=vs)
            res.oblige(bad is None, f"{fname}:gate-complete", facts.loc(root),
                       f"{fname}: with `{vs[0]}` {bad[0] if bad else ''} and "
                       f"`{vs[1]}` {bad[1] if bad else ''} the condition "
                       f"`{cnorm(root)[:90]}` {bad[2] if bad else ''}: handlers "
                       f"registered on the non-empty list are not called")
    if n_gates < 4:
        raise AnalysisError(f"only {n_gates} two-list notifier gates found")
    res.floor(4)
