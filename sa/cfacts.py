"""E-C: type-resolved facts about traits/ctraits.c from clang's JSON AST.

The dump is reduced to compact ``CNode`` trees for the declarations located
in ctraits.c and cached under /verif/.cache keyed by the digest of the source
and the clang version.
"""
from __future__ import annotations

import hashlib
import json
import os
import pickle
import re
import shutil
import subprocess
import sysconfig
import sys
import tempfile

from .core import AnalysisError, VERIF

CREL = "traits/ctraits.c"
CACHE_VERSION = "6"
sys.setrecursionlimit(max(sys.getrecursionlimit(), 20000))


class CNode:
    __slots__ = ("kind", "line", "b", "e", "type", "name", "op", "value",
                 "ref", "refkind", "refid", "id", "ch", "arrow", "extra")

    def __init__(self, kind):
        self.kind = kind
        self.line = 0
        self.b = self.e = -1
        self.type = None
        self.name = None
        self.op = None
        self.value = None
        self.ref = None       # referenced declaration name
        self.refkind = None
        self.refid = None
        self.id = None
        self.ch = []
        self.arrow = False
        self.extra = None

    def walk(self):
        stack = [self]
        while stack:
            n = stack.pop()
            yield n
            stack.extend(reversed(n.ch))

    def __repr__(self):
        bits = [self.kind]
        for a in ("name", "op", "value", "ref"):
            v = getattr(self, a)
            if v is not None:
                bits.append(f"{a}={v}")
        return f"<{' '.join(map(str, bits))} L{self.line}>"


class CFacts:
    def __init__(self, src, decls, macros, clang_version):
        self.src = src
        self.decls = decls          # top-level CNodes located in ctraits.c
        self.macros = macros        # name -> replacement text
        self.clang_version = clang_version
        self.functions = {}
        self.globals = {}
        self.records = {}
        self.typedefs = {}
        for d in decls:
            if d.kind == "FunctionDecl":
                if any(c.kind == "CompoundStmt" for c in d.ch):
                    self.functions[d.name] = d
                else:
                    self.functions.setdefault(d.name, d)
            elif d.kind == "VarDecl":
                self.globals[d.name] = d
            elif d.kind == "RecordDecl":
                if d.name:
                    self.records[d.name] = d
            elif d.kind == "TypedefDecl":
                self.typedefs[d.name] = d

    # -- lookups (fail closed) ------------------------------------------------

    def func(self, name):
        f = self.functions.get(name)
        if f is None or not any(c.kind == "CompoundStmt" for c in f.ch):
            raise AnalysisError(f"anchor C function missing: {name}")
        return f

    def has_func(self, name):
        f = self.functions.get(name)
        return f is not None and any(c.kind == "CompoundStmt" for c in f.ch)

    def body(self, name):
        f = self.func(name)
        return [c for c in f.ch if c.kind == "CompoundStmt"][0]

    def params(self, name):
        return [c for c in self.func(name).ch if c.kind == "ParmVarDecl"]

    def defined_functions(self):
        return [n for n, f in self.functions.items()
                if any(c.kind == "CompoundStmt" for c in f.ch)]

    def global_var(self, name):
        g = self.globals.get(name)
        if g is None:
            raise AnalysisError(f"anchor C global missing: {name}")
        return g

    def text(self, node):
        if node.b < 0 or node.e < 0:
            return ""
        return self.src[node.b:node.e]

    def loc(self, node):
        return f"{CREL}:{node.line}"

    def table(self, name):
        """Initialiser of a static array of function pointers: list of
        function names (None for NULL) — only the explicitly initialised
        prefix."""
        g = self.global_var(name)
        init = [c for c in g.ch if c.kind == "InitListExpr"]
        if not init:
            raise AnalysisError(f"table {name} has no initialiser list")
        out = []
        for el in init[0].ch:
            refs = [n for n in el.walk() if n.kind == "DeclRefExpr"
                    and n.refkind == "FunctionDecl"]
            if refs:
                out.append(refs[0].ref)
            else:
                out.append(None)
        return out

    def table_decl_size(self, name):
        g = self.global_var(name)
        m = re.search(r"\[(\d+)\]", g.type or "")
        return int(m.group(1)) if m else None

    def macro_int(self, name):
        v = self.macros.get(name)
        if v is None:
            raise AnalysisError(f"anchor C macro missing: {name}")
        v = v.strip().strip("()")
        m = re.fullmatch(r"(0[xX][0-9a-fA-F]+|\d+)[uUlL]*", v)
        if not m:
            # one level of indirection
            if v in self.macros:
                return self.macro_int(v)
            raise AnalysisError(f"macro {name} = {v!r} is not an int literal")
        return int(m.group(1), 0)


# ---------------------------------------------------------------------------

def _clang():
    c = shutil.which("clang") or shutil.which("clang-14")
    if not c:
        raise AnalysisError("clang not found")
    return c


def _include():
    inc = sysconfig.get_paths()["include"]
    if not os.path.exists(os.path.join(inc, "Python.h")):
        raise AnalysisError(f"Python.h not found under {inc}")
    return inc


class _LocState:
    __slots__ = ("file", "line")

    def __init__(self):
        self.file = None
        self.line = 0


def _bare(loc, st):
    """Update the delta-decoding state from one bare location; returns
    (file, line, offset, tokLen)."""
    f = loc.get("file")
    if f is not None:
        st.file = f
    l = loc.get("line")
    if l is not None:
        st.line = l
    return (st.file, st.line, loc.get("offset", -1), loc.get("tokLen", 0))


def _loc(loc, st):
    """Returns the *expansion* position (file, line, offset, tokLen)."""
    if not loc:
        return None
    if "spellingLoc" in loc or "expansionLoc" in loc:
        r = None
        # emitted order: spellingLoc then expansionLoc
        if "spellingLoc" in loc:
            _bare(loc["spellingLoc"], st)
        if "expansionLoc" in loc:
            r = _bare(loc["expansionLoc"], st)
        return r
    if "offset" in loc or "line" in loc or "file" in loc:
        return _bare(loc, st)
    return None


def _reduce(j, st, cfile, keep):
    """Walk one JSON node (always, to keep the location state exact); build a
    CNode only when ``keep``."""
    kind = j.get("kind")
    if "loc" in j:
        _loc(j["loc"], st)
    b = e = None
    rng = j.get("range")
    if rng:
        b = _loc(rng.get("begin"), st)
        e = _loc(rng.get("end"), st)
    n = None
    if keep and kind is not None:
        n = CNode(kind)
        if b and b[0] == cfile:
            n.line = b[1]
            n.b = b[2]
        if e and e[0] == cfile:
            n.e = e[2] + e[3]
        t = j.get("type")
        if t:
            n.type = t.get("qualType")
        n.name = j.get("name")
        n.op = j.get("opcode")
        n.value = j.get("value")
        n.id = j.get("id")
        rd = j.get("referencedDecl")
        if rd:
            n.ref = rd.get("name")
            n.refkind = rd.get("kind")
            n.refid = rd.get("id")
        if kind == "MemberExpr":
            n.arrow = bool(j.get("isArrow"))
            n.name = j.get("name")
        if kind == "GotoStmt":
            n.refid = j.get("targetLabelDeclId")
        if kind == "LabelStmt":
            n.refid = j.get("declId")
        if kind == "IfStmt":
            n.extra = {"hasElse": bool(j.get("hasElse"))}
        if kind in ("CStyleCastExpr", "ImplicitCastExpr"):
            n.op = j.get("castKind")
        if kind == "UnaryOperator":
            n.extra = {"postfix": bool(j.get("isPostfix"))}
        if kind == "UnaryExprOrTypeTraitExpr":
            n.name = j.get("name")
            at = j.get("argType")
            if at:
                n.value = at.get("qualType")
    for c in j.get("inner", ()):
        if not c:
            # placeholder for an absent child (e.g. for-loop slots)
            if n is not None:
                n.ch.append(CNode("Null"))
            continue
        cn = _reduce(c, st, cfile, keep)
        if n is not None and cn is not None:
            n.ch.append(cn)
    return n


def extract(src_text, cpath_for_clang):
    clang = _clang()
    inc = _include()
    ver = subprocess.run([clang, "--version"], capture_output=True,
                         text=True).stdout.splitlines()[0]
    p = subprocess.run(
        [clang, "-fsyntax-only", "-Xclang", "-ast-dump=json", f"-I{inc}",
         "-DNDEBUG", "-Wno-everything", cpath_for_clang],
        capture_output=True)
    if p.returncode != 0:
        raise AnalysisError("clang failed on ctraits.c: "
                            + p.stderr.decode(errors="replace")[:500])
    top = json.loads(p.stdout)
    st = _LocState()
    decls = []
    for j in top.get("inner", ()):
        # peek: decide whether this declaration lives in the C file.  The
        # location state must be advanced exactly as clang emitted it, so we
        # first walk with keep=False on a cloned state to find the file.
        probe = _LocState()
        probe.file, probe.line = st.file, st.line
        if "loc" in j:
            _loc(j["loc"], probe)
        keep = probe.file == cpath_for_clang
        n = _reduce(j, st, cpath_for_clang, keep)
        if keep and n is not None:
            decls.append(n)
    m = subprocess.run([clang, "-E", "-dM", "-DNDEBUG", f"-I{inc}", cpath_for_clang],
                       capture_output=True, text=True)
    macros = {}
    for line in m.stdout.splitlines():
        mm = re.match(r"#define (\w+)(\([^)]*\))? ?(.*)", line)
        if mm and not mm.group(2):
            macros[mm.group(1)] = mm.group(3)
    return CFacts(src_text, decls, macros, ver)


def get_cfacts(ctx):
    def compute():
        src = ctx.read(CREL)
        digest = hashlib.sha256(
            (CACHE_VERSION + src).encode()).hexdigest()[:24]
        cdir = os.path.join(VERIF, ".cache")
        cpath = os.path.join(cdir, f"cfacts-{digest}.pkl")
        if os.path.exists(cpath):
            try:
                with open(cpath, "rb") as f:
                    return pickle.load(f)
            except Exception:
                pass
        if CREL in ctx.overlay:
            tmp = tempfile.mkdtemp(prefix="verif-scratch-")
            try:
                path = os.path.join(tmp, "ctraits.c")
                with open(path, "w") as f:
                    f.write(src)
                facts = extract(src, path)
            finally:
                shutil.rmtree(tmp, ignore_errors=True)
        else:
            facts = extract(src, ctx.path(CREL))
        try:
            os.makedirs(cdir, exist_ok=True)
            tmpf = cpath + f".{os.getpid()}.tmp"
            with open(tmpf, "wb") as f:
                pickle.dump(facts, f, protocol=pickle.HIGHEST_PROTOCOL)
            os.replace(tmpf, cpath)
            # keep the cache small
            files = sorted((os.path.getmtime(os.path.join(cdir, x)), x)
                           for x in os.listdir(cdir) if x.startswith("cfacts-"))
            for _, x in files[:-40]:
                os.remove(os.path.join(cdir, x))
        except OSError:
            pass
        return facts

    def with_globals():
        facts = compute()
        from . import csym
        csym.Sym.GLOBALS = frozenset(facts.globals)
        facts_lookup_like(facts)
        csym.EXTRA_LOOKUPS = frozenset(facts._lookup_like)
        csym.set_inline_context(ctx, facts)
        return facts
    return ctx.memo("cfacts", with_globals)



BASE_LOOKUPS = {"dict_getitem", "PyDict_GetItem", "PyDict_GetItemWithError"}


def facts_lookup_like(facts):
    """In-file functions that merely look something up and hand back the
    *borrowed* result (or NULL for 'absent') - e.g. a helper extracted from
    an `instance dict, then class dict` lookup.  Inferred structurally: every
    return is NULL, a lookup call, or a local that is only ever assigned
    NULL / lookup results; the function takes no reference and calls nothing
    that can run Python code besides the lookups."""
    if hasattr(facts, "_lookup_like"):
        return facts._lookup_like
    from .cexpr import callee, is_null, strip
    found = set()
    changed = True
    while changed:
        changed = False
        for f in facts.defined_functions():
            if f in found or f in BASE_LOOKUPS:
                continue
            fn = facts.func(f)
            t = fn.type or ""
            if "*" not in t.split("(")[0]:
                continue
            known = BASE_LOOKUPS | found
            calls = [callee(x) for x in fn.walk() if x.kind == "CallExpr"]
            if any(c not in known for c in calls):
                continue
            returns_global = any(
                x.kind == "ReturnStmt" and x.ch
                and strip(x.ch[0]).kind == "DeclRefExpr"
                and strip(x.ch[0]).ref in facts.globals for x in fn.walk())
            if not calls and not returns_global:
                continue
            # locals assigned only from lookups / NULL
            ok_vars = {}
            bad_vars = set()
            for x in fn.walk():
                if x.kind == "BinaryOperator" and x.op == "=":
                    l, r = strip(x.ch[0]), strip(x.ch[1])
                    if l.kind == "DeclRefExpr":
                        good = is_null(r) or (r.kind == "CallExpr"
                                              and callee(r) in known)
                        (ok_vars if good else bad_vars).setdefault(
                            l.ref, True) if good else bad_vars.add(l.ref)
                if x.kind == "VarDecl" and x.ch:
                    r = strip(x.ch[-1])
                    good = is_null(r) or (r.kind == "CallExpr"
                                          and callee(r) in known)
                    if good:
                        ok_vars[x.name] = True
                    else:
                        bad_vars.add(x.name)
            rets = [x for x in fn.walk() if x.kind == "ReturnStmt"]
            if not rets:
                continue
            good = True
            for r in rets:
                if not r.ch:
                    good = False
                    break
                e = strip(r.ch[0])
                if is_null(e):
                    continue
                if e.kind == "CallExpr" and callee(e) in known:
                    continue
                if e.kind == "DeclRefExpr" and e.ref in ok_vars \
                        and e.ref not in bad_vars:
                    continue
                if e.kind == "DeclRefExpr" and e.ref in facts.globals:
                    continue        # a module-level object: borrowed
                good = False
                break
            if good:
                found.add(f)
                changed = True
    facts._lookup_like = found
    return found


def index_encoders(facts):
    """{function: (field argument, table argument, boxed)}: `func_index`
    itself and the in-file wrappers that forward two of their parameters to
    it (boxed: the wrapper returns the index as a Python int)"""
    from .cexpr import callee, strip
    def compute():
        out = {"func_index": (0, 1, False)}
        for w in facts.defined_functions():
            if w == "func_index":
                continue
            fn = facts.func(w)
            calls = [c for c in fn.walk() if c.kind == "CallExpr"
                     and callee(c) == "func_index"]
            if len(calls) != 1 or sum(1 for _ in fn.walk()) > 60:
                continue
            ps = [q.name for q in facts.params(w)]
            a = [strip(x) for x in calls[0].ch[1:3]]
            if len(a) == 2 and all(x is not None and x.kind == "DeclRefExpr"
                                   and x.ref in ps for x in a):
                boxed = any(c.kind == "CallExpr" and callee(c) in (
                    "PyLong_FromLong", "PyLong_FromSsize_t")
                    and any(y is calls[0] for y in c.walk())
                    for c in fn.walk())
                out[w] = (ps.index(a[0].ref), ps.index(a[1].ref), boxed)
        return out
    if not hasattr(facts, "_index_encoders"):
        facts._index_encoders = compute()
    return facts._index_encoders


def func_index_calls(facts, node):
    """(call, field expression, table expression, boxed) for every call in
    ``node`` that encodes a function pointer as its index in a table"""
    from .cexpr import callee, strip
    enc = index_encoders(facts)
    for c in node.walk():
        if c.kind == "CallExpr" and callee(c) in enc:
            i, j, boxed = enc[callee(c)]
            if callee(c) != "func_index" or True:
                if len(c.ch) > max(i, j) + 1:
                    yield c, strip(c.ch[1 + i]), strip(c.ch[1 + j]), boxed
