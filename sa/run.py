"""Driver: ``python -m sa.run <Cxx> --tier quick|thorough``.

Exit 0: every obligation discharged (known findings printed).
Exit 1: at least one violation not listed in known_findings.json.
Exit 2: the analysis could not be carried out (ANALYSIS-ERROR ...).
"""
from __future__ import annotations

import argparse
import json
import os
import sys
import time
import traceback

from . import core
from .core import AnalysisError, Ctx, VERIF

PROPS = [f"C{i:02d}" for i in range(1, 21)]


def load_rules():
    import importlib
    import pkgutil
    from . import rules
    for m in pkgutil.iter_modules(rules.__path__):
        importlib.import_module(f"sa.rules.{m.name}")


def prop_meta(prop):
    from .propmeta import META
    return META[prop]


def run_property(prop, ctx, only_rules=None, quiet=False):
    """Run all rules of a property.  Returns (results, errors)."""
    results, errors = [], []
    for rid, fn, doc in core.rules_for(prop):
        if only_rules and rid not in only_rules:
            continue
        try:
            results.append(core.run_rule(rid, ctx))
        except AnalysisError as e:
            errors.append(f"{rid}: {e}")
        except Exception as e:  # a crash of the checker is never a verdict
            tb = traceback.format_exc(limit=8)
            errors.append(f"{rid}: internal error {type(e).__name__}: {e}\n{tb}")
    return results, errors


def main(argv=None):
    ap = argparse.ArgumentParser()
    ap.add_argument("prop", nargs="?")
    ap.add_argument("--tier", default=os.environ.get("VERIF_TIER", "quick"),
                    choices=["quick", "thorough"])
    ap.add_argument("--repo", default=os.environ.get("VERIF_REPO", core.DEFAULT_REPO))
    ap.add_argument("--rule", action="append")
    ap.add_argument("--replay")
    ap.add_argument("--no-evidence", action="store_true")
    ap.add_argument("--list", action="store_true")
    ap.add_argument("--selftest", metavar="SUBSTRING",
                    help="development aid: run only the self-test variants "
                         "whose id contains SUBSTRING (quick-tier rules)")
    ap.add_argument("-v", "--verbose", action="store_true")
    args = ap.parse_args(argv)

    load_rules()
    if args.list:
        for rid, (fn, props, doc) in sorted(core.RULES.items()):
            print(rid, ",".join(props), "-", doc.split("\n")[0])
        return 0

    if args.replay:
        with open(args.replay) as f:
            rp = json.load(f)
        args.prop = rp["property"]
        args.rule = [rp["finding"]["rule"]]
        args.no_evidence = True

    prop = args.prop
    if prop not in PROPS:
        print(f"ANALYSIS-ERROR unknown property {prop}")
        return 2
    seed = int(os.environ.get("VERIF_SEED", "0") or 0)
    t0 = time.time()
    ctx = Ctx(args.repo, tier=args.tier, seed=seed)
    meta = prop_meta(prop)

    try:
        results, errors = run_property(prop, ctx, args.rule)
        selftest = None
        if args.selftest:
            from .selftest import run_selftest
            st = run_selftest(prop, ctx, only=args.selftest)
            return 1 if st["errors"] else 0
        if args.tier == "thorough" and not args.rule:
            from .selftest import run_selftest
            selftest = run_selftest(prop, ctx)
            errors.extend(selftest["errors"])
    except Exception as e:
        print(f"ANALYSIS-ERROR property={prop} {type(e).__name__}: {e}")
        traceback.print_exc()
        return 2

    known = core.load_known()
    viol, known_hits = [], []
    for r in results:
        for f in r.findings:
            k = core.match_known(f, prop, known)
            (known_hits if k else viol).append((f, k))

    # ---- report ----------------------------------------------------------
    n_inst = sum(len(r.instances) for r in results)
    n_obl = sum(r.obligations for r in results)
    n_dis = sum(r.discharged for r in results)
    for r in results:
        print(f"[{r.rule}] instances={len(r.instances)} "
              f"obligations={r.obligations} discharged={r.discharged} "
              f"findings={len(r.findings)}")
        if args.verbose:
            for i in r.instances:
                print("    ", json.dumps(i, default=str)[:200])
        for n in r.notes:
            print(f"    note: {n}")
    for f, k in known_hits:
        print(f"KNOWN-FINDING: property={prop} {f.rule} {f.key} @ {f.loc}: {f.msg}")
    outdir = os.path.join(VERIF, "out", prop)
    for i, (f, _) in enumerate(viol):
        rp = os.path.join(outdir, f"{i}.json")
        core.write_json(rp, {
            "property": prop,
            "finding": f.to_json(),
            "rerun": f"/venv/bin/python -m sa.run {prop} --rule {f.rule}",
        })
        print(f"  {f.rule} {f.key} @ {f.loc}: {f.msg}")
        if f.path:
            print(f"    path: {' -> '.join(map(str, f.path[:40]))}")
        print(f"VIOLATION property={prop} replay={rp}")
    for e in errors:
        print(f"ANALYSIS-ERROR property={prop} {e}")

    wall = time.time() - t0
    if not args.no_evidence:
        write_evidence(prop, meta, ctx, results, viol, known_hits, errors,
                       selftest, wall)
    print(f"property={prop} tier={args.tier} rules={len(results)} "
          f"instances={n_inst} obligations={n_obl} discharged={n_dis} "
          f"violations={len(viol)} known={len(known_hits)} "
          f"errors={len(errors)} wall={wall:.2f}s")
    if errors:
        return 2
    return 1 if viol else 0


def write_evidence(prop, meta, ctx, results, viol, known_hits, errors,
                   selftest, wall):
    samples = []
    for r in results:
        for inst in r.instances[:4]:
            s = {"rule": r.rule}
            s.update(inst)
            samples.append(s)
    distinct = set()
    for r in results:
        distinct |= {(r.rule, k) for k in r.nontrivial}
    cov = {
        "obligations": sum(r.obligations for r in results),
        "discharged": sum(r.discharged for r in results),
        "evaluations": sum(len(r.instances) for r in results),
        "distinct_nontrivial": len(distinct),
        "rule": "one evaluation = one rule instance (function, call site, "
                "table slot, sibling pair or abstract-domain row) extracted "
                "from /repo's current source; non-trivial = the instance "
                "contained at least one event relevant to its rule; distinct "
                "by (rule id, instance key)",
        "samples": samples[:60],
        "explanation": meta["explanation"],
        "trusted_base": meta.get("trusted_base", []),
        "rules": [
            {"id": r.rule,
             "clause": (core.RULES.get(r.rule) or (None, None, ""))[2],
             "instances": len(r.instances),
             "obligations": r.obligations, "discharged": r.discharged,
             "findings": [f.to_json() for f in r.findings],
             "notes": r.notes}
            for r in results],
        "known_findings": [f.ident() for f, _ in known_hits],
        "checker_cmd": f"/venv/bin/python -m sa.run {prop} --tier {ctx.tier}",
        "exhaustive": True,
        "analysis_errors": errors,
    }
    if meta.get("level") == "translation_validation":
        cov["programs"] = sum(r_extra(r, "programs") for r in results)
        cov["disagreements_checked"] = sum(r_extra(r, "rows") for r in results)
    if selftest is not None:
        cov["selftest"] = selftest["summary"]
    ev = {
        "property_id": prop,
        "tier": ctx.tier,
        "seed": ctx.seed,
        "level": meta.get("level", "other"),
        "coverage": cov,
        "assumptions": meta.get("assumptions", []),
        "wall_s": round(wall, 3),
        "violations": len(viol),
    }
    core.write_json(os.path.join(VERIF, "evidence", f"{prop}.json"), ev)


def r_extra(r, key):
    return sum(int(i.get(key, 0)) for i in r.instances)


if __name__ == "__main__":
    try:
        rc = main()
    except SystemExit:
        raise
    except BaseException as e:
        print(f"ANALYSIS-ERROR {type(e).__name__}: {e}")
        traceback.print_exc()
        rc = 2
    sys.stdout.flush()
    os._exit(rc)
