"""Thorough tier: test every rule both ways on in-memory variants of the
current source.

A *mutant* is a small edit (text substitution anchored inside one function)
that keeps the file compiling and is of the kind the existing tests do not
notice; the rule named by the variant must report a finding whose key contains
``expect``.  A *twin* is a behaviour-preserving edit; the rules of the
property must report nothing new.  Variants whose anchor text no longer occurs
in the current source are *stale*: they are skipped and listed, never a
failure (the source legitimately moved on).
"""
from __future__ import annotations

import ast
import concurrent.futures as cf
import os

from . import core
from .core import AnalysisError

VARIANTS = []   # filled by sa/variants/*.py


def variant(id, props, file, find, replace, rule=None, expect="", kind="mutant",
            count=1, note=""):
    VARIANTS.append(dict(id=id, props=list(props), file=file, find=find,
                         replace=replace, rule=rule, expect=expect, kind=kind,
                         count=count, note=note))


def load_variants():
    if VARIANTS:
        return
    import importlib
    import pkgutil
    from . import variants
    for m in pkgutil.iter_modules(variants.__path__):
        importlib.import_module(f"sa.variants.{m.name}")


def apply_variant(ctx, v):
    """Overlay for the variant or None when stale."""
    src = ctx.read(v["file"])
    if src.count(v["find"]) != v["count"]:
        return None
    new = src.replace(v["find"], v["replace"])
    if v["file"].endswith(".py"):
        try:
            compile(new, v["file"], "exec")
        except SyntaxError as e:
            raise AnalysisError(f"variant {v['id']} does not compile: {e}")
    return {v["file"]: new}


def _baseline_idents(prop, ctx):
    from .run import run_property
    results, errors = run_property(prop, ctx)
    return {f.ident() for r in results for f in r.findings}, errors


def _run_one(args):
    v, prop, repo, base_idents = args
    from .run import load_rules, run_property
    load_rules()
    ctx = core.Ctx(repo, tier="quick")
    try:
        ov = apply_variant(ctx, v)
        if ov is None:
            return (v["id"], "stale", "anchor text not found exactly "
                    f"{v['count']}x in {v['file']}")
        vctx = ctx.with_overlay(ov)
        only = [v["rule"]] if (v["rule"] and v["kind"] == "mutant") else None
        results, errors = run_property(prop, vctx, only)
        new = [f for r in results for f in r.findings
               if f.ident() not in base_idents]
        if v["kind"] == "mutant":
            hit = [f for f in new if v["expect"] in f.ident()]
            if hit:
                return (v["id"], "caught", hit[0].ident() + " @ " + hit[0].loc)
            if errors:
                # an analysis error on a mutant also means "noticed, fail
                # closed", but we want rules to name the construct
                return (v["id"], "caught-as-error", errors[0][:200])
            return (v["id"], "MISSED",
                    f"rule {v['rule']} reported {[f.ident() for f in new]}")
        else:
            if errors:
                return (v["id"], "TWIN-ERROR", errors[0][:300])
            if new:
                return (v["id"], "TWIN-FIRED", new[0].ident())
            return (v["id"], "silent", "")
    except AnalysisError as e:
        return (v["id"], "ERROR", str(e)[:300])


def run_selftest(prop, ctx, jobs=None, only=None):
    load_variants()
    served = {rid for rid, _, _ in core.rules_for(prop)}
    mine = [v for v in VARIANTS if prop in v["props"]
            and (v["kind"] == "twin" or v["rule"] is None
                 or v["rule"] in served)]
    if only:
        mine = [v for v in mine if only in v["id"]]
    base_idents, _ = _baseline_idents(prop, ctx)
    jobs = jobs or min(16, os.cpu_count() or 1, max(1, len(mine)))
    out = []
    if mine:
        work = [(v, prop, ctx.repo, base_idents) for v in mine]
        if jobs > 1 and len(mine) > 3:
            with cf.ProcessPoolExecutor(jobs) as ex:
                out = list(ex.map(_run_one, work))
        else:
            out = [_run_one(w) for w in work]
    errors = []
    summary = {"variants": len(mine), "caught": 0, "silent_twins": 0,
               "stale": [], "results": []}
    for (vid, status, detail) in out:
        summary["results"].append({"id": vid, "status": status,
                                   "detail": detail})
        if status in ("caught", "caught-as-error"):
            summary["caught"] += 1
        elif status == "silent":
            summary["silent_twins"] += 1
        elif status == "stale":
            summary["stale"].append(vid)
        else:
            errors.append(f"selftest {vid}: {status} {detail}")
        print(f"  selftest {vid}: {status} {detail}")
    return {"summary": summary, "errors": errors}
