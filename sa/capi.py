"""Model of the CPython C API functions called by ctraits.c (CPython 3.12
semantics, from the C-API reference).  One row per function:

  ret    'new'      returns a new (owned) reference, NULL on failure
         'borrowed' returns a borrowed reference
         'int' / 'void' / 'ptr' / 'double'   no object result
  err    how failure is signalled: 'null' (NULL result + exception set),
         'neg' (negative int + exception set), 'neg1-occurred' (-1 and
         PyErr_Occurred()), 'none' (cannot fail / no exception)
  steals indices of arguments whose reference is stolen
  python True when the call may run arbitrary Python code (callbacks)
  oom    True when the only failure mode is memory exhaustion
"""
from __future__ import annotations

from .core import AnalysisError


def F(ret, err="none", steals=(), python=False, oom=False, sets_error=False):
    return dict(ret=ret, err=err, steals=tuple(steals), python=python,
                oom=oom, sets_error=sets_error)


API = {
    # argument parsing / building
    "PyArg_ParseTuple": F("int", "zero"),
    "Py_BuildValue": F("new", "null", oom=True),
    # calls
    "PyObject_Call": F("new", "null", python=True),
    "PyObject_CallMethod": F("new", "null", python=True),
    "PyCallable_Check": F("int"),
    # numbers
    "PyComplex_AsCComplex": F("struct", "neg1-occurred", python=True),
    "PyComplex_FromCComplex": F("new", "null", oom=True),
    "PyFloat_AS_DOUBLE": F("double"),
    "PyFloat_AsDouble": F("double", "neg1-occurred", python=True),
    "PyFloat_FromDouble": F("new", "null", oom=True),
    "PyLong_AsLong": F("int", "neg1-occurred", python=True),
    "PyLong_FromLong": F("new", "null", oom=True),
    "PyLong_FromUnsignedLong": F("new", "null", oom=True),
    "PyNumber_Index": F("new", "null", python=True),
    "PyNumber_Long": F("new", "null", python=True),
    # dicts
    "PyDict_Copy": F("new", "null", oom=True),
    "PyDict_DelItem": F("int", "neg", python=True),
    "PyDict_GetItem": F("borrowed", "none", python=True),   # suppresses errors
    "PyDict_GetItemWithError": F("borrowed", "null-maybe", python=True),
    "PyDict_New": F("new", "null", oom=True),
    "PyDict_Next": F("int"),
    "PyDict_SetItem": F("int", "neg", python=True),
    "PyDict_Size": F("int"),
    "PyMapping_Size": F("int", "neg", python=True),
    # errors
    "PyErr_Clear": F("void"),
    "PyErr_ExceptionMatches": F("int"),
    "PyErr_Fetch": F("void"),
    "PyErr_Format": F("null", "null", sets_error=True),
    "PyErr_NormalizeException": F("void"),
    "PyErr_Occurred": F("borrowed"),
    "PyErr_Restore": F("void", steals=(0, 1, 2)),
    "PyErr_SetObject": F("void", sets_error=True),
    "PyErr_SetString": F("void", sets_error=True),
    "PyErr_WarnEx": F("int", "neg", python=True),
    "PyException_SetCause": F("void", steals=(1,)),
    "PyException_SetTraceback": F("int"),
    # import / module
    "PyImport_ImportModule": F("new", "null", python=True),
    "PyModule_AddIntConstant": F("int", "neg"),
    "PyModule_AddObject": F("int", "neg", steals=(2,)),
    "PyModule_Create2": F("new", "null"),
    # lists / tuples / sequences
    "PyList_GET_SIZE": F("int"),
    "PyList_New": F("new", "null", oom=True),
    "PyList_SET_ITEM": F("void", steals=(2,)),
    "PySequence_Contains": F("int", "neg", python=True),
    "PySequence_List": F("new", "null", python=True),
    "PyTuple_GET_SIZE": F("int"),
    "PyTuple_New": F("new", "null", oom=True),
    "PyTuple_Pack": F("new", "null", oom=True),
    "PyTuple_SET_ITEM": F("void", steals=(2,)),
    # objects / attributes / types
    "PyObject_GC_UnTrack": F("void"),
    "PyObject_GenericGetAttr": F("new", "null", python=True),
    "PyObject_GenericSetAttr": F("int", "neg", python=True),
    "PyObject_GetAttr": F("new", "null", python=True),
    "PyObject_GetAttrString": F("new", "null", python=True),
    "PyObject_IsInstance": F("int", "neg", python=True),
    "PyObject_IsTrue": F("int", "neg", python=True),
    "PyObject_TypeCheck": F("int"),
    "PyType_Check": F("int"),
    "PyType_GenericAlloc": F("new", "null", oom=True),
    "PyType_GenericNew": F("new", "null", oom=True),
    "PyType_HasFeature": F("int"),
    "PyType_Ready": F("int", "neg"),
    "Py_IS_TYPE": F("int"),
    "Py_TYPE": F("ptr"),
    # unicode
    "PyUnicode_Concat": F("new", "null", oom=True),
    "PyUnicode_DATA": F("ptr"),
    "PyUnicode_FromString": F("new", "null", oom=True),
    "PyUnicode_GET_LENGTH": F("int"),
    "PyUnicode_READ": F("int"),
    "PyUnicode_READY": F("int", "neg"),
    # reference counting
    "Py_DECREF": F("void", python=True),
    "Py_INCREF": F("void"),
    "Py_XDECREF": F("void", python=True),
    "Py_XINCREF": F("void"),
    # internals reached through macros
    "_PyThreadState_UncheckedGet": F("ptr"),
    "_PyTrash_begin": F("void"),
    "_PyTrash_cond": F("int"),
    "_PyTrash_end": F("void"),
    "visit": F("int"),
    # calls through function pointers (modelled by field)
    "->tp_free": F("void"),
    "->tp_getattro": F("new", "null", python=True),
    "->tp_new": F("new", "null"),
    "->validate": F("new", "null", python=True),
    "->getattr": F("new", "null", python=True),
    "->setattr": F("int", "neg", python=True),
    "->post_setattr": F("int", "neg", python=True),
    "post_setattr": F("int", "neg", python=True),
    "->delegate_attr_name": F("new", "null"),
}


def check_table(facts):
    """Fail closed when the file calls an API that is not modelled."""
    from .cexpr import callee
    unknown = set()
    for name in facts.defined_functions():
        for x in facts.func(name).walk():
            if x.kind == "CallExpr":
                c = callee(x)
                if c in API or facts.has_func(c):
                    continue
                unknown.add(c)
    if unknown:
        raise AnalysisError(f"C API functions without a model row: "
                            f"{sorted(unknown)}")
