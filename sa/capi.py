"""Model of the CPython C API functions called by ctraits.c (CPython 3.12
semantics, from the C-API reference).  One row per function:

  ret    'new'      returns a new (owned) reference, NULL on failure
         'borrowed' returns a borrowed reference
         'int' / 'void' / 'ptr' / 'double'   no object result
  err    how failure is signalled: 'null' (NULL result + exception set),
         'neg' (negative int + exception set), 'neg1-occurred' (-1 and
         PyErr_Occurred()), 'none' (cannot fail / no exception)
  steals indices of arguments whose reference is stolen
  python True when the call may run arbitrary Python code (callbacks)
  oom    True when the only failure mode is memory exhaustion
"""
from __future__ import annotations

from .core import AnalysisError


def F(ret, err="none", steals=(), python=False, oom=False, sets_error=False):
    return dict(ret=ret, err=err, steals=tuple(steals), python=python,
                oom=oom, sets_error=sets_error)


API = {
    # argument parsing / building
    "PyArg_ParseTuple": F("int", "zero"),
    "Py_BuildValue": F("new", "null", oom=True),
    # calls
    "PyObject_Call": F("new", "null", python=True),
    "PyObject_CallMethod": F("new", "null", python=True),
    "PyCallable_Check": F("int"),
    # numbers
    "PyComplex_AsCComplex": F("struct", "neg1-occurred", python=True),
    "PyComplex_FromCComplex": F("new", "null", oom=True),
    "PyFloat_AS_DOUBLE": F("double"),
    "PyFloat_AsDouble": F("double", "neg1-occurred", python=True),
    "PyFloat_FromDouble": F("new", "null", oom=True),
    "PyLong_AsLong": F("int", "neg1-occurred", python=True),
    "PyLong_FromLong": F("new", "null", oom=True),
    "PyLong_FromUnsignedLong": F("new", "null", oom=True),
    "PyNumber_Index": F("new", "null", python=True),
    "PyNumber_Long": F("new", "null", python=True),
    # dicts
    "PyDict_Copy": F("new", "null", oom=True),
    "PyDict_DelItem": F("int", "neg", python=True),
    "PyDict_GetItem": F("borrowed", "none", python=True),   # suppresses errors
    "PyDict_GetItemWithError": F("borrowed", "null-maybe", python=True),
    "PyDict_New": F("new", "null", oom=True),
    "PyDict_Next": F("int"),
    "PyDict_SetItem": F("int", "neg", python=True),
    "PyDict_Size": F("int"),
    "PyMapping_Size": F("int", "neg", python=True),
    # errors
    "PyErr_Clear": F("void"),
    "PyErr_ExceptionMatches": F("int"),
    "PyErr_Fetch": F("void"),
    "PyErr_Format": F("null", "null", sets_error=True),
    "PyErr_NormalizeException": F("void"),
    "PyErr_Occurred": F("borrowed"),
    "PyErr_Restore": F("void", steals=(0, 1, 2)),
    "PyErr_SetObject": F("void", sets_error=True),
    "PyErr_SetString": F("void", sets_error=True),
    "PyErr_WarnEx": F("int", "neg", python=True),
    "PyException_SetCause": F("void", steals=(1,)),
    "PyException_SetTraceback": F("int"),
    # import / module
    "PyImport_ImportModule": F("new", "null", python=True),
    "PyModule_AddIntConstant": F("int", "neg"),
    "PyModule_AddObject": F("int", "neg", steals=(2,)),
    "PyModule_Create2": F("new", "null"),
    # lists / tuples / sequences
    "PyList_GET_SIZE": F("int"),
    "PyList_New": F("new", "null", oom=True),
    "PyList_SET_ITEM": F("void", steals=(2,)),
    "PySequence_Contains": F("int", "neg", python=True),
    "PySequence_List": F("new", "null", python=True),
    "PyTuple_GET_SIZE": F("int"),
    "PyTuple_New": F("new", "null", oom=True),
    "PyTuple_Pack": F("new", "null", oom=True),
    "PyTuple_SET_ITEM": F("void", steals=(2,)),
    # objects / attributes / types
    "PyObject_GC_UnTrack": F("void"),
    "PyObject_GenericGetAttr": F("new", "null", python=True),
    "PyObject_GenericSetAttr": F("int", "neg", python=True),
    "PyObject_GetAttr": F("new", "null", python=True),
    "PyObject_GetAttrString": F("new", "null", python=True),
    "PyObject_IsInstance": F("int", "neg", python=True),
    "PyObject_IsTrue": F("int", "neg", python=True),
    "PyObject_TypeCheck": F("int"),
    "PyType_Check": F("int"),
    "PyType_GenericAlloc": F("new", "null", oom=True),
    "PyType_GenericNew": F("new", "null", oom=True),
    "PyType_HasFeature": F("int"),
    "PyType_Ready": F("int", "neg"),
    "Py_IS_TYPE": F("int"),
    "Py_TYPE": F("ptr"),
    # unicode
    "PyUnicode_Concat": F("new", "null", oom=True),
    "PyUnicode_DATA": F("ptr"),
    "PyUnicode_FromString": F("new", "null", oom=True),
    "PyUnicode_GET_LENGTH": F("int"),
    "PyUnicode_READ": F("int"),
    "PyUnicode_READY": F("int", "neg"),
    # reference counting
    "Py_DECREF": F("void", python=True),
    "Py_INCREF": F("void"),
    "Py_XDECREF": F("void", python=True),
    "Py_XINCREF": F("void"),
    # internals reached through macros
    "_PyThreadState_UncheckedGet": F("ptr"),
    "_PyTrash_begin": F("void"),
    "_PyTrash_cond": F("int"),
    "_PyTrash_end": F("void"),
    "visit": F("int"),
    # ---- commonly used CPython API not (yet) called by the file: modelled
    # so that a legitimate new call does not make the analysis fail closed
    "PyObject_RichCompare": F("new", "null", python=True),
    "PyObject_RichCompareBool": F("int", "neg", python=True),
    "PyObject_SetAttr": F("int", "neg", python=True),
    "PyObject_SetAttrString": F("int", "neg", python=True),
    "PyObject_HasAttr": F("int", python=True),
    "PyObject_HasAttrString": F("int", python=True),
    "PyObject_DelAttr": F("int", "neg", python=True),
    "PyObject_Str": F("new", "null", python=True),
    "PyObject_Repr": F("new", "null", python=True),
    "PyObject_Hash": F("int", "neg", python=True),
    "PyObject_Length": F("int", "neg", python=True),
    "PyObject_Size": F("int", "neg", python=True),
    "PyObject_GetItem": F("new", "null", python=True),
    "PyObject_SetItem": F("int", "neg", python=True),
    "PyObject_DelItem": F("int", "neg", python=True),
    "PyObject_GetIter": F("new", "null", python=True),
    "PyIter_Next": F("new", "null-maybe", python=True),
    "PyObject_CallObject": F("new", "null", python=True),
    "PyObject_CallFunction": F("new", "null", python=True),
    "PyObject_CallFunctionObjArgs": F("new", "null", python=True),
    "PyObject_CallMethodObjArgs": F("new", "null", python=True),
    "PyObject_CallNoArgs": F("new", "null", python=True),
    "PyObject_CallOneArg": F("new", "null", python=True),
    "PyObject_IsSubclass": F("int", "neg", python=True),
    "PyObject_Not": F("int", "neg", python=True),
    "PyType_IsSubtype": F("int"),
    "Py_NewRef": F("new"),
    "Py_XNewRef": F("new"),
    "Py_CLEAR": F("void", python=True),
    "Py_SETREF": F("void", python=True),
    "Py_XSETREF": F("void", python=True),
    "PyList_Append": F("int", "neg", oom=True),
    "PyList_Insert": F("int", "neg", oom=True),
    "PyList_GetItem": F("borrowed", "null"),
    "PyList_GET_ITEM": F("borrowed"),
    "PyList_SetItem": F("int", "neg", steals=(2,)),
    "PyList_Size": F("int"),
    "PyList_AsTuple": F("new", "null", oom=True),
    "PyList_GetSlice": F("new", "null", oom=True),
    "PyList_Sort": F("int", "neg", python=True),
    "PyList_Reverse": F("int", "neg"),
    "PyTuple_GetItem": F("borrowed", "null"),
    "PyTuple_GET_ITEM": F("borrowed"),
    "PyTuple_SetItem": F("int", "neg", steals=(2,)),
    "PyTuple_Size": F("int"),
    "PyTuple_GetSlice": F("new", "null", oom=True),
    "PyDict_Contains": F("int", "neg", python=True),
    "PyDict_GetItemString": F("borrowed"),
    "PyDict_SetItemString": F("int", "neg"),
    "PyDict_DelItemString": F("int", "neg"),
    "PyDict_Keys": F("new", "null", oom=True),
    "PyDict_Values": F("new", "null", oom=True),
    "PyDict_Items": F("new", "null", oom=True),
    "PyDict_Update": F("int", "neg", python=True),
    "PyDict_Merge": F("int", "neg", python=True),
    "PyDict_Clear": F("void", python=True),
    "PyDict_SetDefault": F("borrowed", "null", python=True),
    "PySet_New": F("new", "null", python=True),
    "PySet_Add": F("int", "neg", python=True),
    "PySet_Contains": F("int", "neg", python=True),
    "PySet_Discard": F("int", "neg", python=True),
    "PySequence_Tuple": F("new", "null", python=True),
    "PySequence_Size": F("int", "neg", python=True),
    "PySequence_Length": F("int", "neg", python=True),
    "PySequence_GetItem": F("new", "null", python=True),
    "PySequence_Check": F("int"),
    "PySequence_Fast": F("new", "null", python=True),
    "PyMapping_Check": F("int"),
    "PyMapping_GetItemString": F("new", "null", python=True),
    "PyNumber_Float": F("new", "null", python=True),
    "PyNumber_Check": F("int"),
    "PyNumber_Add": F("new", "null", python=True),
    "PyIndex_Check": F("int"),
    "PyLong_AsSsize_t": F("int", "neg1-occurred", python=True),
    "PyLong_AsUnsignedLong": F("int", "neg1-occurred"),
    "PyLong_AsLongLong": F("int", "neg1-occurred", python=True),
    "PyLong_AsLongAndOverflow": F("int", "neg1-occurred", python=True),
    "PyLong_FromSsize_t": F("new", "null", oom=True),
    "PyLong_FromLongLong": F("new", "null", oom=True),
    "PyLong_FromSize_t": F("new", "null", oom=True),
    "PyBool_FromLong": F("new"),
    "PyFloat_AsDouble": F("double", "neg1-occurred", python=True),
    "PyUnicode_AsUTF8": F("ptr", "null"),
    "PyUnicode_FromFormat": F("new", "null", oom=True),
    "PyUnicode_Compare": F("int", "neg1-occurred"),
    "PyUnicode_CompareWithASCIIString": F("int"),
    "PyUnicode_Check": F("int"),
    "PyUnicode_Tailmatch": F("int", "neg"),
    "PyUnicode_Substring": F("new", "null", oom=True),
    "PyUnicode_Join": F("new", "null", python=True),
    "PyUnicode_InternFromString": F("new", "null", oom=True),
    "PyErr_SetNone": F("void", sets_error=True),
    "PyErr_NoMemory": F("null", "null", sets_error=True),
    "PyErr_BadInternalCall": F("void", sets_error=True),
    "PyErr_BadArgument": F("int", "zero", sets_error=True),
    "PyErr_GivenExceptionMatches": F("int"),
    "PyErr_WarnFormat": F("int", "neg", python=True),
    "PyErr_Print": F("void", python=True),
    "PyErr_WriteUnraisable": F("void", python=True),
    "PyArg_ParseTupleAndKeywords": F("int", "zero"),
    "PyArg_UnpackTuple": F("int", "zero"),
    "PyWeakref_NewRef": F("new", "null", oom=True),
    "PyWeakref_GetObject": F("borrowed"),
    "PyMem_Malloc": F("ptr", "null", oom=True),
    "PyMem_Free": F("void"),
    "PyObject_GC_Track": F("void"),
    "PyObject_GC_Del": F("void"),
    "PyObject_Free": F("void"),
    # 0 on success; non-zero with RecursionError set
    "PyUnicode_FindChar": F("int", "neg"),
    "PyUnicode_ReadChar": F("int", "neg1-occurred"),
    "PyUnicode_READ_CHAR": F("int"),
    "Py_EnterRecursiveCall": F("int", "nonzero"),
    "Py_LeaveRecursiveCall": F("void"),
    "PyGILState_Ensure": F("int"),
    "PyGILState_Release": F("void"),
    "PyEval_SaveThread": F("ptr"),
    "PyEval_RestoreThread": F("void"),
    "memcpy": F("ptr"), "memset": F("ptr"), "strlen": F("int"),
    "strcmp": F("int"), "strncmp": F("int"),
    # calls through function pointers (modelled by field)
    "->tp_free": F("void"),
    "->tp_getattro": F("new", "null", python=True),
    "->tp_new": F("new", "null"),
    "->validate": F("new", "null", python=True),
    "->getattr": F("new", "null", python=True),
    "->setattr": F("int", "neg", python=True),
    "->post_setattr": F("int", "neg", python=True),
    "post_setattr": F("int", "neg", python=True),
    "->delegate_attr_name": F("new", "null"),
}


def check_table(facts):
    """Fail closed when the file calls an API that is not modelled."""
    from .cexpr import callee
    unknown = set()
    for name in facts.defined_functions():
        for x in facts.func(name).walk():
            if x.kind == "CallExpr":
                c = callee(x)
                if c in API or facts.has_func(c):
                    continue
                unknown.add(c)
    if unknown:
        raise AnalysisError(f"C API functions without a model row: "
                            f"{sorted(unknown)}")
