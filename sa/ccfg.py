"""CFG builder for C functions (reduced clang AST), continuation style.

Node kinds:
  stmt     expression statement / one VarDecl with initialiser; edge 'n'
  cond     atomic condition; edges 'T', 'F'
  switch   switch head (ast = controlling expr); edges ('case', int),
           'default'
  return   ReturnStmt; edge 'n' to exit
  join     no-op (labels, loop heads, goto, break, continue)
"""
from __future__ import annotations

from .cfg import CFG
from .cexpr import int_value, strip
from .core import AnalysisError


class _K:
    __slots__ = ("next", "brk", "cont", "sw")

    def __init__(self, next, brk=None, cont=None, sw=None):
        self.next, self.brk, self.cont, self.sw = next, brk, cont, sw

    def replace(self, **kw):
        k = _K(self.next, self.brk, self.cont, self.sw)
        for a, v in kw.items():
            setattr(k, a, v)
        return k


EXPR_KINDS = {"BinaryOperator", "CallExpr", "UnaryOperator",
              "CompoundAssignOperator", "ParenExpr", "CStyleCastExpr",
              "ConditionalOperator", "ImplicitCastExpr", "DeclRefExpr",
              "MemberExpr", "StmtExpr", "IntegerLiteral", "ArraySubscriptExpr"}


class CCFGBuilder:
    def __init__(self, func):
        self.func = func
        self.cfg = CFG(func.name)
        self.labels = {}

    def label(self, decl_id, line=0, name=None):
        if decl_id not in self.labels:
            self.labels[decl_id] = self.cfg.new("join", None, line)
        if name is not None:
            self.labels[decl_id].info = ("label", name)
        return self.labels[decl_id]

    def build(self):
        g = self.cfg
        body = [c for c in self.func.ch if c.kind == "CompoundStmt"]
        if not body:
            raise AnalysisError(f"{self.func.name} has no body")
        start = self.stmt(body[0], _K(g.exit))
        g.edge(g.entry, start)
        return g

    def seq(self, stmts, k):
        nxt = k.next
        for s in reversed(stmts):
            nxt = self.stmt(s, k.replace(next=nxt))
        return nxt

    def cond(self, e, t, f, root=None):
        g = self.cfg
        root = e if root is None else root
        s = strip(e)
        if s.kind == "BinaryOperator" and s.op == "&&":
            r = self.cond(s.ch[1], t, f, root)
            return self.cond(s.ch[0], r, f, root)
        if s.kind == "BinaryOperator" and s.op == "||":
            r = self.cond(s.ch[1], t, f, root)
            return self.cond(s.ch[0], t, r, root)
        if s.kind == "UnaryOperator" and s.op == "!":
            return self.cond(s.ch[0], f, t, root)
        # `c ? a : b` as a condition is `a` under c and `b` otherwise, and a
        # comparison of such an expression with something distributes over
        # its arms (so that a test written with ?: has the same atomic tests
        # as its && / || spelling)
        if s.kind == "ConditionalOperator" and len(s.ch) == 3:
            ta = self.cond(s.ch[1], t, f, root)
            fa = self.cond(s.ch[2], t, f, root)
            return self.cond(s.ch[0], ta, fa, root)
        if s.kind == "BinaryOperator" and s.op in (
                "==", "!=", "<", "<=", ">", ">=") and len(s.ch) == 2:
            for i in (0, 1):
                a = strip(s.ch[i])
                if a is not None and a.kind == "ConditionalOperator" \
                        and len(a.ch) == 3:
                    import copy as _copy
                    arms = []
                    for arm in (a.ch[1], a.ch[2]):
                        b = _copy.copy(s)
                        b.ch = list(s.ch)
                        b.ch[i] = arm
                        arms.append(self.cond(b, t, f, root))
                    return self.cond(a.ch[0], arms[0], arms[1], root)
            lv, rv = int_value(strip(s.ch[0])), int_value(strip(s.ch[1]))
            if lv is not None and rv is not None:
                truth = {"==": lv == rv, "!=": lv != rv, "<": lv < rv,
                         "<=": lv <= rv, ">": lv > rv, ">=": lv >= rv}[s.op]
                j = g.new("join", None, s.line or e.line)
                g.edge(j, t if truth else f)
                return j
        v = int_value(s)
        n = g.new("cond", s, s.line or e.line, info=root)
        if v is None or v != 0:
            g.edge(n, t, "T")
        if v is None or v == 0:
            g.edge(n, f, "F")
        return n

    def stmt(self, s, k):
        g = self.cfg
        kind = s.kind
        if kind == "CompoundStmt":
            return self.seq(s.ch, k)
        if kind in ("NullStmt", "Null"):
            return k.next
        if kind == "DeclStmt":
            nxt = k.next
            for d in reversed(s.ch):
                if d.kind == "VarDecl" and any(
                        c.kind not in ("UnusedAttr",) for c in d.ch):
                    n = g.new("stmt", d, d.line or s.line)
                    g.edge(n, nxt)
                    nxt = n
            return nxt
        if kind == "IfStmt":
            has_else = bool(s.extra and s.extra.get("hasElse"))
            c, then = s.ch[0], s.ch[1]
            t = self.stmt(then, k)
            f = self.stmt(s.ch[2], k) if has_else and len(s.ch) > 2 else k.next
            return self.cond(c, t, f)
        if kind == "WhileStmt":
            head = g.new("join", None, s.line)
            body = self.stmt(s.ch[1], k.replace(next=head, brk=k.next,
                                                cont=head))
            c = self.cond(s.ch[0], body, k.next)
            g.edge(head, c)
            return head
        if kind == "DoStmt":
            head = g.new("join", None, s.line)
            c = self.cond(s.ch[1], head, k.next)
            body = self.stmt(s.ch[0], k.replace(next=c, brk=k.next, cont=c))
            g.edge(head, body)
            return head
        if kind == "ForStmt":
            init, _cv, cnd, inc, body = (s.ch + [None] * 5)[:5]
            head = g.new("join", None, s.line)
            inc_entry = head
            if inc is not None and inc.kind != "Null":
                n = g.new("stmt", inc, inc.line or s.line,
                          info=("for-inc", s.line))
                g.edge(n, head)
                inc_entry = n
            b = self.stmt(body, k.replace(next=inc_entry, brk=k.next,
                                          cont=inc_entry))
            if cnd is not None and cnd.kind != "Null":
                c = self.cond(cnd, b, k.next)
            else:
                c = b
            g.edge(head, c)
            if init is not None and init.kind != "Null":
                return self.stmt(init, k.replace(next=head))
            return head
        if kind == "SwitchStmt":
            sw = {"cases": [], "default": None}
            body = self.stmt(s.ch[-1], k.replace(brk=k.next, sw=sw))
            n = g.new("switch", strip(s.ch[0]), s.line)
            for v, entry in sw["cases"]:
                g.edge(n, entry, ("case", v))
            g.edge(n, sw["default"] if sw["default"] is not None else k.next,
                   "default")
            return n
        if kind == "CaseStmt":
            if k.sw is None:
                raise AnalysisError("case outside switch")
            entry = self.stmt(s.ch[-1], k)
            j = g.new("join", None, s.line)
            g.edge(j, entry)
            v = int_value(s.ch[0])
            if v is None:
                v = s.ch[0].value
                try:
                    v = int(v)
                except (TypeError, ValueError):
                    raise AnalysisError(
                        f"non-constant case label at line {s.line}")
            k.sw["cases"].append((v, j))
            return j
        if kind == "DefaultStmt":
            entry = self.stmt(s.ch[-1], k)
            j = g.new("join", None, s.line)
            g.edge(j, entry)
            k.sw["default"] = j
            return j
        if kind == "BreakStmt":
            j = g.new("join", None, s.line)
            g.edge(j, k.brk)
            return j
        if kind == "ContinueStmt":
            j = g.new("join", None, s.line)
            g.edge(j, k.cont)
            return j
        if kind == "ReturnStmt":
            # `return <boolean expression>;` in an int function is the two
            # returns 1 / 0 under the outcomes of the expression (so that a
            # predicate written as one expression has the same atomic tests
            # as its if/else spelling)
            e = strip(s.ch[0]) if s.ch else None
            ft = ((self.func.type or "").split("(")[0]).strip()
            if e is not None and ft in ("int", "static int") and (
                    (e.kind == "BinaryOperator" and e.op in (
                        "&&", "||", "==", "!=", "<", "<=", ">", ">="))
                    or (e.kind == "UnaryOperator" and e.op == "!")):
                from .cfacts import CNode
                rets = []
                for v in ("1", "0"):
                    lit = CNode("IntegerLiteral")
                    lit.value = v
                    lit.line = s.line
                    lit.type = "int"
                    r = CNode("ReturnStmt")
                    r.line = s.line
                    r.ch = [lit]
                    n = g.new("return", r, s.line)
                    g.edge(n, g.exit)
                    rets.append(n)
                return self.cond(s.ch[0], rets[0], rets[1])
            n = g.new("return", s, s.line)
            g.edge(n, g.exit)
            return n
        if kind == "GotoStmt":
            j = g.new("join", None, s.line)
            g.edge(j, self.label(s.refid, s.line))
            return j
        if kind == "LabelStmt":
            j = self.label(s.refid, s.line, s.name)
            entry = self.stmt(s.ch[-1], k) if s.ch else k.next
            g.edge(j, entry)
            return j
        if kind in EXPR_KINDS:
            # `x = c ? a : b;` is the two assignments under the two outcomes
            # of c (so that path rules see the cases, exactly as for the
            # equivalent if/else)
            top = strip(s)
            if top is not None and top.kind == "BinaryOperator" \
                    and top.op == "=" and len(top.ch) == 2:
                rhs = strip(top.ch[1])
                if rhs is not None and rhs.kind == "ConditionalOperator" \
                        and len(rhs.ch) == 3:
                    import copy as _copy
                    arms = []
                    for arm in (rhs.ch[1], rhs.ch[2]):
                        a = _copy.copy(top)
                        a.ch = [top.ch[0], arm]
                        n = g.new("stmt", a, s.line)
                        g.edge(n, k.next)
                        arms.append(n)
                    return self.cond(rhs.ch[0], arms[0], arms[1])
            n = g.new("stmt", s, s.line)
            g.edge(n, k.next)
            return n
        raise AnalysisError(f"unsupported C statement {kind} at line "
                            f"{s.line} in {self.func.name}")


def build_ccfg(func):
    return CCFGBuilder(func).build()


def get_ccfg(ctx, facts, name):
    return ctx.memo(("ccfg", name), lambda: build_ccfg(facts.func(name)))
