"""Core data model of the static checker: context, rule registry, findings,
known-findings matching, evidence writing.

Nothing here imports or executes the code under analysis.
"""
from __future__ import annotations

import hashlib
import json
import os
import time
import traceback

VERIF = os.path.dirname(os.path.dirname(os.path.abspath(__file__)))
DEFAULT_REPO = "/repo"


class AnalysisError(Exception):
    """The analysis itself cannot be carried out (vanished anchor, instance
    count under its floor, unrecognised construct).  Exit 2, never a pass."""


class Ctx:
    """Where the sources come from.  ``overlay`` maps a repo-relative path to
    replacement text (used by the self-test variants so that no copy of the
    repository is needed)."""

    def __init__(self, repo=DEFAULT_REPO, overlay=None, tier="quick", seed=0):
        self.repo = repo
        self.overlay = dict(overlay or {})
        self.tier = tier
        self.seed = seed
        self._cache = {}

    def path(self, rel):
        return os.path.join(self.repo, rel)

    def read(self, rel):
        if rel in self.overlay:
            return self.overlay[rel]
        p = self.path(rel)
        try:
            with open(p, encoding="utf-8") as f:
                return f.read()
        except OSError as e:
            raise AnalysisError(f"anchor file missing: {rel} ({e})")

    def exists(self, rel):
        return rel in self.overlay or os.path.exists(self.path(rel))

    def memo(self, key, thunk):
        if key not in self._cache:
            self._cache[key] = thunk()
        return self._cache[key]

    def with_overlay(self, overlay):
        return Ctx(self.repo, overlay, self.tier, self.seed)


class Finding:
    """A violation of a rule at a specific construct.

    key -- stable identity (rule, function/class, normalised construct); never
           a line number.
    """

    def __init__(self, rule, key, loc, msg, path=None, extra=None):
        self.rule = rule
        self.key = key
        self.loc = loc
        self.msg = msg
        self.path = path or []
        self.extra = extra or {}

    def ident(self):
        return f"{self.rule}|{self.key}"

    def to_json(self):
        return {
            "rule": self.rule,
            "key": self.key,
            "loc": self.loc,
            "msg": self.msg,
            "path": self.path,
            **({"extra": self.extra} if self.extra else {}),
        }

    def __repr__(self):
        return f"<{self.rule} {self.key} @ {self.loc}: {self.msg}>"


class RuleResult:
    def __init__(self, rule):
        self.rule = rule
        self.instances = []      # list of dicts: what was analysed
        self.obligations = 0
        self.discharged = 0
        self.findings = []
        self.notes = []
        self.nontrivial = set()  # distinct keys of instances with events

    def instance(self, key, loc=None, nontrivial=True, **kw):
        d = {"key": key}
        if loc:
            d["loc"] = loc
        d.update(kw)
        self.instances.append(d)
        if nontrivial:
            self.nontrivial.add(key)
        return d

    def oblige(self, ok, key, loc, msg, path=None, extra=None):
        """Record one obligation; a failed one becomes a finding."""
        self.obligations += 1
        if ok:
            self.discharged += 1
        else:
            self.findings.append(Finding(self.rule, key, loc, msg, path, extra))
        return ok

    def violation(self, key, loc, msg, path=None, extra=None):
        return self.oblige(False, key, loc, msg, path, extra)

    def note(self, s):
        self.notes.append(s)

    def floor(self, n, what="instances"):
        """Fail closed if the rule matched fewer instances than confirmed by
        hand on the pinned tree."""
        if len(self.instances) < n:
            raise AnalysisError(
                f"{self.rule}: only {len(self.instances)} {what} matched, "
                f"floor is {n} (anchor moved or idiom no longer recognised)"
            )


# --------------------------------------------------------------------------
# registry

RULES = {}   # rule id -> (func, properties, doc)


def rule(rule_id, props, doc=""):
    def deco(fn):
        RULES[rule_id] = (fn, tuple(props), doc or (fn.__doc__ or "").strip())
        fn.rule_id = rule_id
        return fn
    return deco


def rules_for(prop):
    return [(rid, fn, doc) for rid, (fn, props, doc) in sorted(RULES.items())
            if prop in props]


def run_rule(rule_id, ctx):
    fn = RULES[rule_id][0]
    res = RuleResult(rule_id)
    fn(ctx, res)
    return res


# --------------------------------------------------------------------------
# known findings

def load_known(path=None):
    path = path or os.path.join(VERIF, "known_findings.json")
    if not os.path.exists(path):
        return {"known": [], "fixed": []}
    with open(path) as f:
        d = json.load(f)
    d.setdefault("known", [])
    d.setdefault("fixed", [])
    return d


def match_known(finding, prop, known):
    for k in known["known"]:
        if k["rule"] == finding.rule and k["key"] == finding.key \
                and prop in k.get("properties", [prop]):
            return k
    return None


# --------------------------------------------------------------------------
# evidence

def write_json(path, obj):
    os.makedirs(os.path.dirname(path), exist_ok=True)
    tmp = path + ".tmp"
    with open(tmp, "w") as f:
        json.dump(obj, f, indent=1, sort_keys=False, default=str)
        f.write("\n")
    os.replace(tmp, path)


def sha(s):
    return hashlib.sha256(s.encode()).hexdigest()[:16]
