"""String-shape domain: abstract evaluation of the small subset of Python used
by the delegate-prefix code over symbolic strings.

An abstract string is a tuple of atoms.  A one-character ``str`` atom is that
literal character; an upper-case atom such as 'P' or 'N' is an opaque,
non-empty string that contains no '*'; ('last', X) is the (non-'*') last
character of X, ('init', X) is X without its last character (possibly empty).
Anything outside the supported operations raises AnalysisError (fail closed).
"""
from __future__ import annotations

import ast

from .core import AnalysisError


class Unknown(Exception):
    pass


def lit(s):
    return tuple(s)


def show(t):
    if not isinstance(t, tuple):
        return repr(t)
    out = []
    for a in t:
        if isinstance(a, str) and len(a) == 1 and not a.isupper():
            out.append(a)
        elif isinstance(a, tuple):
            out.append(f"<{a[0]} {a[1]}>")
        else:
            out.append(f"<{a}>")
    return "".join(out) or '""'


def is_char(a):
    return isinstance(a, str) and len(a) == 1 and not a.isupper()


def min_len(t):
    n = 0
    for a in t:
        if isinstance(a, tuple) and a[0] == "init":
            continue
        n += 1
    return n


def exact_len(t):
    return len(t) if all(is_char(a) or (isinstance(a, tuple)
                                        and a[0] == "last") for a in t) else None


def last(t):
    if not t:
        return ()
    a = t[-1]
    if is_char(a):
        return (a,)
    if isinstance(a, tuple) and a[0] == "last":
        return (a,)
    if isinstance(a, tuple) and a[0] == "init":
        raise Unknown("last character of a possibly empty remainder")
    return (("last", a),)


def drop_last(t):
    if not t:
        return ()
    a = t[-1]
    if is_char(a) or (isinstance(a, tuple) and a[0] == "last"):
        return t[:-1]
    if isinstance(a, tuple) and a[0] == "init":
        raise Unknown("dropping from a possibly empty remainder")
    return t[:-1] + (("init", a),)


def str_eq(a, b):
    """True / False / None(unknown)"""
    if a == b:
        return True
    ea, eb = exact_len(a), exact_len(b)
    if ea is not None and eb is not None and ea != eb:
        return False
    if (ea == 0 and min_len(b) > 0) or (eb == 0 and min_len(a) > 0):
        return False
    # single characters: a literal '*' never equals the last char of a
    # star-free opaque string
    if len(a) == 1 and len(b) == 1:
        x, y = a[0], b[0]
        if is_char(x) and is_char(y):
            return x == y
        if "*" in (x, y) and (isinstance(x, tuple) or isinstance(y, tuple)):
            return False
    if all(is_char(c) for c in a) and all(is_char(c) for c in b):
        return a == b
    return None


class Interp:
    def __init__(self, attr_values, name=""):
        self.attrs = attr_values          # dotted text -> abstract value
        self.name = name

    # -- expressions: return list of (value, env) alternatives -------------

    def ev(self, e, env):
        if isinstance(e, ast.Constant):
            if isinstance(e.value, str):
                return [lit(e.value)]
            if isinstance(e.value, (int, bool)) or e.value is None:
                return [e.value]
        if isinstance(e, ast.Name):
            if e.id in env:
                return [env[e.id]]
            raise AnalysisError(f"{self.name}: unbound name {e.id}")
        if isinstance(e, ast.Attribute):
            t = ast.unparse(e)
            if t in self.attrs:
                return [self.attrs[t]]
            raise AnalysisError(f"{self.name}: attribute {t} is not modelled")
        if isinstance(e, ast.Subscript):
            outs = []
            for v in self.ev(e.value, env):
                if not isinstance(v, tuple):
                    raise AnalysisError(f"{self.name}: subscript of non-string")
                s = e.slice
                try:
                    if isinstance(s, ast.Slice):
                        lo = self._int(s.lower)
                        hi = self._int(s.upper)
                        if lo == -1 and hi is None and s.step is None:
                            outs.append(last(v))
                        elif lo is None and hi == -1 and s.step is None:
                            outs.append(drop_last(v))
                        else:
                            raise AnalysisError(
                                f"{self.name}: slice {ast.unparse(e)}")
                    elif self._int(s) == -1:
                        if not v:
                            outs.append(("INDEXERROR",))
                        else:
                            outs.append(last(v))
                    else:
                        raise AnalysisError(
                            f"{self.name}: index {ast.unparse(e)}")
                except Unknown as u:
                    raise AnalysisError(f"{self.name}: {u}")
            return outs
        if isinstance(e, ast.Compare) and len(e.ops) == 1:
            outs = []
            for l in self.ev(e.left, env):
                for r in self.ev(e.comparators[0], env):
                    op = e.ops[0]
                    if isinstance(l, tuple) and isinstance(r, tuple):
                        if not isinstance(op, (ast.Eq, ast.NotEq)):
                            raise AnalysisError(f"{self.name}: {ast.unparse(e)}")
                        q = str_eq(l, r)
                        alts = [True, False] if q is None else [q]
                        for a in alts:
                            outs.append(a if isinstance(op, ast.Eq) else not a)
                    elif isinstance(l, tuple) and l and l[0] == "LEN":
                        outs.extend(self._cmp_len(l, op, r, e))
                    elif isinstance(l, int) and isinstance(r, int):
                        outs.append(self._cmp_int(l, op, r))
                    else:
                        raise AnalysisError(f"{self.name}: {ast.unparse(e)}")
            return sorted(set(outs), key=str)
        if isinstance(e, ast.Call) and isinstance(e.func, ast.Name) \
                and e.func.id == "getattr" and len(e.args) == 3 \
                and isinstance(e.args[1], ast.Constant) \
                and isinstance(e.args[1].value, str):
            # getattr(X, "a", default): the modelled attribute, or the
            # default when the attribute is absent; the use of a default is
            # recorded for writer/reader fall-back agreement
            t = f"{ast.unparse(e.args[0])}.{e.args[1].value}"
            if t not in self.attrs:
                raise AnalysisError(f"{self.name}: attribute {t} is not "
                                    f"modelled")
            self.defaults = getattr(self, "defaults", {})
            self.defaults[t] = self.ev(e.args[2], env)
            return [self.attrs[t]]
        if isinstance(e, ast.Call) and isinstance(e.func, ast.Attribute) \
                and e.func.attr in ("endswith", "startswith") \
                and len(e.args) == 1 and isinstance(e.args[0], ast.Constant) \
                and isinstance(e.args[0].value, str) \
                and len(e.args[0].value) == 1:
            # X.endswith("c") / X.startswith("c") for a one-character literal
            c = e.args[0].value
            outs = []
            for t in self.ev(e.func.value, env):
                if not isinstance(t, tuple):
                    raise AnalysisError(f"{self.name}: {ast.unparse(e)}")
                if not t:
                    outs.append(False)
                    continue
                a = t[-1] if e.func.attr == "endswith" else t[0]
                if is_char(a):
                    outs.append(a == c)
                elif isinstance(a, str) and c == "*":
                    outs.append(False)      # opaque atoms contain no '*'
                elif isinstance(a, tuple) and a[0] == "last" and c == "*":
                    outs.append(False)
                else:
                    outs.extend([True, False])
            return sorted(set(outs), key=str)
        if isinstance(e, ast.Call) and isinstance(e.func, ast.Name) \
                and e.func.id == "len" and len(e.args) == 1:
            return [("LEN", v) for v in self.ev(e.args[0], env)]
        if isinstance(e, ast.BoolOp):
            # short circuit, branching on unknowns
            acc = [None]
            vals = e.values
            results = []

            def go(i):
                if i == len(vals):
                    return [isinstance(e.op, ast.And)]
                outs = []
                for v in self.ev(vals[i], env):
                    if not isinstance(v, bool):
                        raise AnalysisError(f"{self.name}: non-boolean in "
                                            f"{ast.unparse(e)}")
                    if isinstance(e.op, ast.And):
                        outs.extend([False] if not v else go(i + 1))
                    else:
                        outs.extend([True] if v else go(i + 1))
                return outs
            return sorted(set(go(0)))
        if isinstance(e, ast.UnaryOp) and isinstance(e.op, ast.Not):
            return [not v for v in self.ev(e.operand, env)]
        if isinstance(e, ast.BinOp) and isinstance(e.op, ast.Add):
            return [l + r for l in self.ev(e.left, env)
                    for r in self.ev(e.right, env)
                    if isinstance(l, tuple) and isinstance(r, tuple)]
        if isinstance(e, ast.BinOp) and isinstance(e.op, ast.Mod):
            fmt = self.ev(e.left, env)
            if len(fmt) != 1 or not all(is_char(c) for c in fmt[0]):
                raise AnalysisError(f"{self.name}: format string")
            f = "".join(fmt[0])
            args = e.right.elts if isinstance(e.right, ast.Tuple) else [e.right]
            argvals = [self.ev(a, env) for a in args]
            outs = [()]
            parts = f.split("%s")
            if len(parts) != len(args) + 1:
                raise AnalysisError(f"{self.name}: format arity")
            for i, p in enumerate(parts):
                outs = [o + lit(p) for o in outs]
                if i < len(args):
                    outs = [o + v for o in outs for v in argvals[i]
                            if isinstance(v, tuple)]
            return outs
        if isinstance(e, ast.Call) and isinstance(e.func, ast.Name) \
                and e.func.id in getattr(self, "functions", {}) \
                and not e.keywords and getattr(self, "_depth", 0) < 3:
            # a module-level helper: interpret its body with the arguments
            f = self.functions[e.func.id]
            params = [a.arg for a in f.args.args]
            if len(params) == len(e.args):
                outs = []
                argsets = [[]]
                for a in e.args:
                    argsets = [x + [v] for x in argsets
                               for v in self.ev(a, env)]
                self._depth = getattr(self, "_depth", 0) + 1
                try:
                    for vals in argsets:
                        for kind, v, _e in self.run(
                                f.body, dict(zip(params, vals))):
                            if kind == "return":
                                outs.append(v)
                finally:
                    self._depth -= 1
                if outs:
                    return outs
        if isinstance(e, ast.Tuple):
            combos = [()]
            for x in e.elts:
                combos = [c + (v,) for c in combos for v in self.ev(x, env)]
            return [("TUPLE",) + c for c in combos]
        raise AnalysisError(f"{self.name}: unsupported expression "
                            f"`{ast.unparse(e)}`")

    @staticmethod
    def _int(n):
        if n is None:
            return None
        if isinstance(n, ast.Constant) and isinstance(n.value, int):
            return n.value
        if isinstance(n, ast.UnaryOp) and isinstance(n.op, ast.USub) \
                and isinstance(n.operand, ast.Constant):
            return -n.operand.value
        return "?"

    def _cmp_int(self, l, op, r):
        import operator as o
        table = {ast.Gt: o.gt, ast.GtE: o.ge, ast.Lt: o.lt, ast.LtE: o.le,
                 ast.Eq: o.eq, ast.NotEq: o.ne}
        return table[type(op)](l, r)

    def _cmp_len(self, l, op, r, e):
        t = l[1]
        if not isinstance(r, int):
            raise AnalysisError(f"{self.name}: {ast.unparse(e)}")
        ex = exact_len(t)
        if ex is not None:
            return [self._cmp_int(ex, op, r)]
        lo = min_len(t)
        if isinstance(op, ast.Gt):
            return [True] if lo > r else [True, False]
        if isinstance(op, ast.GtE):
            return [True] if lo >= r else [True, False]
        return [True, False]

    # -- statements ---------------------------------------------------------

    def run(self, stmts, env):
        """list of ('return', value, env) / ('fall', None, env)"""
        states = [dict(env)]
        results = []
        for s in stmts:
            nxt = []
            for st in states:
                if isinstance(s, ast.Expr) and isinstance(s.value, ast.Constant):
                    nxt.append(st)          # docstring
                elif isinstance(s, ast.Assign):
                    for v in self.ev(s.value, st):
                        st2 = dict(st)
                        for t in s.targets:
                            if isinstance(t, ast.Tuple) and isinstance(
                                    v, tuple) and v[:1] == ("TUPLE",) \
                                    and len(v) == len(t.elts) + 1 and all(
                                    isinstance(x, ast.Name) for x in t.elts):
                                for x, vv in zip(t.elts, v[1:]):
                                    st2[x.id] = vv
                            elif isinstance(t, ast.Name):
                                st2[t.id] = v
                            elif isinstance(t, ast.Subscript) \
                                    and isinstance(t.slice, ast.Constant):
                                st2[f"{ast.unparse(t.value)}"
                                    f"[{t.slice.value!r}]"] = v
                            elif isinstance(t, ast.Attribute):
                                st2[ast.unparse(t)] = v
                            else:
                                raise AnalysisError(
                                    f"{self.name}: assignment target "
                                    f"{ast.unparse(t)}")
                        nxt.append(st2)
                elif isinstance(s, ast.If):
                    for c in self.ev(s.test, st):
                        if not isinstance(c, bool):
                            raise AnalysisError(f"{self.name}: non-boolean "
                                                f"test {ast.unparse(s.test)}")
                        for kind, v, e2 in self.run(s.body if c else s.orelse,
                                                    st):
                            if kind == "return":
                                results.append((kind, v, e2))
                            else:
                                nxt.append(e2)
                elif isinstance(s, ast.Return):
                    for v in (self.ev(s.value, st) if s.value else [None]):
                        results.append(("return", v, st))
                elif isinstance(s, ast.Expr) and isinstance(s.value, ast.Call):
                    nxt.append(st)          # calls (super().__init__) ignored
                else:
                    raise AnalysisError(f"{self.name}: unsupported statement "
                                        f"{type(s).__name__}")
            states = nxt
        results.extend(("fall", None, st) for st in states)
        return results
