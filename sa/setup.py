"""MANIFEST.setup_cmd: verify that everything the checks need is on disk.
Builds nothing (the analysers are pure Python; C facts are extracted on
demand and cached under /verif/.cache)."""
import os
import shutil
import subprocess
import sys
import sysconfig


def main():
    ok = True
    if not os.path.isdir("/repo/traits"):
        print("setup: /repo/traits missing")
        ok = False
    clang = shutil.which("clang") or shutil.which("clang-14")
    if not clang:
        print("setup: clang not found")
        ok = False
    inc = sysconfig.get_paths()["include"]
    if not os.path.exists(os.path.join(inc, "Python.h")):
        print(f"setup: Python.h not found under {inc}")
        ok = False
    if sys.version_info < (3, 11):
        print("setup: need Python >= 3.11")
        ok = False
    os.makedirs(os.path.join(os.path.dirname(os.path.dirname(
        os.path.abspath(__file__))), ".cache"), exist_ok=True)
    print("setup:", "ok" if ok else "FAILED", "clang=", clang, "include=", inc)
    return 0 if ok else 1


if __name__ == "__main__":
    sys.exit(main())
