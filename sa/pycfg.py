"""CFG builder for Python functions (structured, continuation style).

Node kinds:
  stmt      simple statement (ast = the statement); edges 'n', 'exc'
  cond      atomic condition (ast = expr); edges 'T', 'F', 'exc'
  foriter   evaluation of a for-loop iterable (ast = expr); 'n', 'exc'
  fornext   loop head (ast = the For node); 'T' (item bound) / 'F' (done), 'exc'
  with      evaluation of with-items (ast = the With node); 'n', 'exc'
  dispatch  exception dispatch of a try (ast = Try); edges ('except', i),
            'uncaught'
  handler   entry of an except clause (ast = ExceptHandler); 'n'
  join      no-op
Return statements are 'stmt' nodes whose 'n' edge goes to the exit (through
enclosing finally blocks); Raise statements have only an 'exc' edge.
"""
from __future__ import annotations

import ast

from .cfg import CFG
from .core import AnalysisError


class _Cont:
    __slots__ = ("next", "brk", "cont", "ret", "exc")

    def __init__(self, next, brk, cont, ret, exc):
        self.next, self.brk, self.cont, self.ret, self.exc = \
            next, brk, cont, ret, exc

    def replace(self, **kw):
        c = _Cont(self.next, self.brk, self.cont, self.ret, self.exc)
        for k, v in kw.items():
            setattr(c, k, v)
        return c


class PyCFGBuilder:
    def __init__(self, func, name=""):
        self.func = func
        self.cfg = CFG(name or getattr(func, "name", "?"))

    def build(self):
        g = self.cfg
        k = _Cont(g.exit, None, None, g.exit, g.raise_exit)
        body = self.func.body
        start = self.block(body, k)
        g.edge(g.entry, start)
        return g

    # ------------------------------------------------------------------

    def block(self, stmts, k):
        nxt = k.next
        for s in reversed(stmts):
            nxt = self.stmt(s, k.replace(next=nxt))
        return nxt

    def simple(self, s, k, kind="stmt", target=None, astnode=None):
        g = self.cfg
        n = g.new(kind, s if astnode is None else astnode,
                  getattr(s, "lineno", 0))
        g.edge(n, k.next if target is None else target, "n")
        g.edge(n, k.exc, "exc")
        return n

    def cond(self, test, t, f, k, root=None):
        """``root`` is the whole test expression this atom belongs to (kept
        in node.info so that rules can reason about the complete guard)."""
        g = self.cfg
        root = test if root is None else root
        if isinstance(test, ast.BoolOp):
            vals = test.values
            if isinstance(test.op, ast.And):
                nxt = t
                for v in reversed(vals):
                    nxt = self.cond(v, nxt, f, k, root)
                return nxt
            else:
                nxt = f
                for v in reversed(vals):
                    nxt = self.cond(v, t, nxt, k, root)
                return nxt
        if isinstance(test, ast.UnaryOp) and isinstance(test.op, ast.Not):
            return self.cond(test.operand, f, t, k, root)
        n = g.new("cond", test, getattr(test, "lineno", 0), info=root)
        g.edge(n, t, "T")
        g.edge(n, f, "F")
        g.edge(n, k.exc, "exc")
        return n

    def stmt(self, s, k):
        g = self.cfg
        if isinstance(s, ast.If):
            t = self.block(s.body, k)
            f = self.block(s.orelse, k) if s.orelse else k.next
            return self.cond(s.test, t, f, k)
        if isinstance(s, ast.While):
            head = g.new("join", None, s.lineno)
            after = self.block(s.orelse, k) if s.orelse else k.next
            body = self.block(s.body, k.replace(next=head, brk=k.next,
                                                cont=head))
            c = self.cond(s.test, body, after, k)
            g.edge(head, c)
            return head
        if isinstance(s, (ast.For, ast.AsyncFor)):
            head = g.new("fornext", s, s.lineno)
            after = self.block(s.orelse, k) if s.orelse else k.next
            body = self.block(s.body, k.replace(next=head, brk=k.next,
                                                cont=head))
            g.edge(head, body, "T")
            g.edge(head, after, "F")
            g.edge(head, k.exc, "exc")
            it = g.new("foriter", s.iter, s.lineno)
            g.edge(it, head, "n")
            g.edge(it, k.exc, "exc")
            return it
        if isinstance(s, (ast.With, ast.AsyncWith)):
            body = self.block(s.body, k)
            n = g.new("with", s, s.lineno)
            g.edge(n, body, "n")
            g.edge(n, k.exc, "exc")
            return n
        if isinstance(s, ast.Try):
            return self.try_(s, k)
        if isinstance(s, ast.Return):
            return self.simple(s, k, target=k.ret)
        if isinstance(s, ast.Raise):
            n = g.new("stmt", s, s.lineno)
            g.edge(n, k.exc, "exc")
            return n
        if isinstance(s, ast.Break):
            if k.brk is None:
                raise AnalysisError("break outside loop")
            n = g.new("join", None, s.lineno)
            g.edge(n, k.brk)
            return n
        if isinstance(s, ast.Continue):
            n = g.new("join", None, s.lineno)
            g.edge(n, k.cont)
            return n
        if isinstance(s, (ast.Expr, ast.Assign, ast.AugAssign, ast.AnnAssign,
                          ast.Delete, ast.Pass, ast.Assert, ast.Import,
                          ast.ImportFrom, ast.Global, ast.Nonlocal,
                          ast.FunctionDef, ast.AsyncFunctionDef,
                          ast.ClassDef)):
            return self.simple(s, k)
        raise AnalysisError(
            f"unsupported statement {type(s).__name__} at line "
            f"{getattr(s, 'lineno', '?')} in {self.cfg.name}")

    def try_(self, s, k):
        g = self.cfg
        if s.finalbody:
            # one copy of the finally block per continuation kind
            def fin(target):
                if target is None:
                    return None
                return self.block(s.finalbody, k.replace(next=target))
            inner = _Cont(fin(k.next), fin(k.brk), fin(k.cont), fin(k.ret),
                          fin(k.exc))
        else:
            inner = k
        if not s.handlers:
            return self.block(s.body, inner)
        after_else = self.block(s.orelse, inner) if s.orelse else inner.next
        disp = g.new("dispatch", s, s.lineno)
        catch_all = False
        for i, h in enumerate(s.handlers):
            hb = self.block(h.body, inner)
            hn = g.new("handler", h, h.lineno)
            g.edge(hn, hb)
            g.edge(disp, hn, ("except", i))
            if h.type is None or (isinstance(h.type, ast.Name)
                                  and h.type.id == "BaseException"):
                catch_all = True
        if not catch_all:
            g.edge(disp, inner.exc, "uncaught")
        body = self.block(s.body, inner.replace(next=after_else, exc=disp))
        return body


def build_cfg(func, name=""):
    return PyCFGBuilder(func, name).build()
