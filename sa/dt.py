"""E-DT: decision tables by path-predicate extraction (no execution, no
solver).  A table is a list of rows (atoms with polarity -> outcome); it is
*evaluated* on the valuations of a finite abstract domain by interpreting each
atom with a domain plug-in.
"""
from __future__ import annotations

import ast

from . import cfg as cfgmod
from .core import AnalysisError


class Row:
    __slots__ = ("atoms", "outcome", "lines", "where")

    def __init__(self, atoms, outcome, lines, where=None):
        self.atoms = atoms        # list of (atom payload, truth)
        self.outcome = outcome
        self.lines = lines
        self.where = where

    def __repr__(self):
        return f"<Row {self.atoms} -> {self.outcome}>"


def rows_from_cfg(cfg, outcome_of, stop_at=None, max_paths=50000,
                  start=None, include=None, with_stmts=False):
    """Enumerate acyclic paths (loops 0/1) and turn them into rows.

    outcome_of(node) -> outcome or None: called for every node on the path;
    the first non-None value ends the row.  ``include(node, label)`` may veto
    an edge.
    """
    rows = []
    exits = {cfg.exit.id, cfg.raise_exit.id}
    start = cfg.entry.id if start is None else start

    def go(nid, atoms, lines, counts):
        if len(rows) > max_paths:
            raise AnalysisError(f"decision table of {cfg.name} too large")
        node = cfg.nodes[nid]
        oc = outcome_of(node)
        if oc is not None:
            rows.append(Row(list(atoms), oc, list(lines) + [node.line], nid))
            return
        if nid in exits or not cfg.succ[nid]:
            rows.append(Row(list(atoms), ("END", node.kind), list(lines), nid))
            return
        for lab, tgt in cfg.succ[nid]:
            if lab == "exc":
                continue
            if include is not None and not include(node, lab):
                continue
            c = counts.get(tgt, 0)
            if c >= 2:
                continue
            counts[tgt] = c + 1
            if node.kind == "cond":
                atoms.append((node, lab == "T"))
            elif node.kind == "switch":
                atoms.append((node, lab))
            elif with_stmts and node.kind == "stmt" and node.ast is not None:
                # the statements between the tests, for interpreters that
                # track locals along the row (truth None = not a test)
                atoms.append((node, None))
            lines.append(node.line)
            go(tgt, atoms, lines, counts)
            lines.pop()
            if node.kind in ("cond", "switch") or (
                    with_stmts and node.kind == "stmt"
                    and node.ast is not None):
                atoms.pop()
            counts[tgt] = c
    go(start, [], [], {start: 1})
    return rows


def evaluate(rows, interp):
    """Rows whose atoms all hold under ``interp(atom_node) -> bool | None``
    (None = atom not interpretable: fail closed).  Returns the list of
    matching rows."""
    out = []
    for r in rows:
        ok = True
        for node, truth in r.atoms:
            v = interp(node)
            if v is None:
                raise AnalysisError(
                    f"uninterpretable atom at line {node.line}")
            if isinstance(truth, bool):
                if bool(v) != truth:
                    ok = False
                    break
            else:
                if v != truth:
                    ok = False
                    break
        if ok:
            out.append(r)
    return out


# ---------------------------------------------------------------------------
# ordering domain

LT, EQ, GT, UN = "LT", "EQ", "GT", "UN"
REL = (LT, EQ, GT, UN)
FLIP = {LT: GT, GT: LT, EQ: EQ, UN: UN}


def cmp_holds(op, rel):
    """truth of `a op b` given rel(a, b) over {LT,EQ,GT,UN}; IEEE semantics:
    every ordered comparison with an unordered operand is false, != true."""
    if op == "<":
        return rel == LT
    if op == "<=":
        return rel in (LT, EQ)
    if op == ">":
        return rel == GT
    if op == ">=":
        return rel in (GT, EQ)
    if op == "==":
        return rel == EQ
    if op == "!=":
        return rel != EQ
    raise AnalysisError(f"unknown comparison {op}")


PY_CMP = {ast.Lt: "<", ast.LtE: "<=", ast.Gt: ">", ast.GtE: ">=",
          ast.Eq: "==", ast.NotEq: "!="}
