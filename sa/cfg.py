"""Language-independent control-flow graph, path-sensitive state propagation
with witnesses, dominators and acyclic path enumeration."""
from __future__ import annotations

from collections import deque

from .core import AnalysisError


class Node:
    __slots__ = ("id", "kind", "ast", "line", "info")

    def __init__(self, nid, kind, ast=None, line=0, info=None):
        self.id = nid
        self.kind = kind      # entry, exit, raise, stmt, cond, join, ...
        self.ast = ast
        self.line = line
        self.info = info

    def __repr__(self):
        return f"<N{self.id} {self.kind} L{self.line}>"


class CFG:
    def __init__(self, name=""):
        self.name = name
        self.nodes = []
        self.succ = {}
        self.pred = {}
        self.entry = self.new("entry")
        self.exit = self.new("exit")      # normal return
        self.raise_exit = self.new("raise")  # exceptional exit (python)

    def new(self, kind, ast=None, line=0, info=None):
        n = Node(len(self.nodes), kind, ast, line, info)
        self.nodes.append(n)
        self.succ[n.id] = []
        self.pred[n.id] = []
        return n

    def edge(self, a, b, label="n"):
        a = a.id if isinstance(a, Node) else a
        b = b.id if isinstance(b, Node) else b
        if (label, b) not in self.succ[a]:
            self.succ[a].append((label, b))
            self.pred[b].append((label, a))

    def node(self, i):
        return self.nodes[i]

    # -- reachability ------------------------------------------------------

    def reachable(self, start=None, labels=None):
        start = self.entry.id if start is None else start
        seen = {start}
        dq = deque([start])
        while dq:
            x = dq.popleft()
            for lab, y in self.succ[x]:
                if labels is not None and lab not in labels:
                    continue
                if y not in seen:
                    seen.add(y)
                    dq.append(y)
        return seen

    # -- dominators (iterative) ---------------------------------------------

    def dominators(self, skip_labels=()):
        reach = self.reachable()
        order = sorted(reach)
        dom = {n: set(order) for n in order}
        dom[self.entry.id] = {self.entry.id}
        changed = True
        while changed:
            changed = False
            for n in order:
                if n == self.entry.id:
                    continue
                preds = [p for lab, p in self.pred[n]
                         if p in reach and lab not in skip_labels]
                if not preds:
                    new = {n}
                else:
                    new = set.intersection(*(dom[p] for p in preds)) | {n}
                if new != dom[n]:
                    dom[n] = new
                    changed = True
        return dom


NORMAL = None   # label predicate meaning "every non-exceptional out-edge"


def propagate(cfg, init, transfer, max_states=200000):
    """Path-sensitive forward propagation.

    transfer(node, state) -> iterable of (label, state).  ``label`` None means
    all out-edges whose label is not 'exc'; otherwise only edges with exactly
    that label ('T', 'F', 'exc', ('case', v), ...).

    Returns (states, parent) where states[node_id] is the set of states that
    reach the node (before its transfer) and parent[(node_id, state)] is the
    (node_id, state) it was first reached from.
    """
    states = {n.id: set() for n in cfg.nodes}
    parent = {}
    start = (cfg.entry.id, init)
    states[cfg.entry.id].add(init)
    parent[start] = None
    work = deque([start])
    count = 0
    while work:
        nid, st = work.popleft()
        count += 1
        if count > max_states:
            raise AnalysisError(
                f"state explosion in {cfg.name} (> {max_states} states)")
        node = cfg.nodes[nid]
        if not cfg.succ[nid]:
            continue
        outs = transfer(node, st)
        for lab, st2 in outs:
            for elab, tgt in cfg.succ[nid]:
                if lab is NORMAL:
                    if elab == "exc":
                        continue
                elif elab != lab:
                    continue
                if st2 not in states[tgt]:
                    states[tgt].add(st2)
                    parent[(tgt, st2)] = (nid, st)
                    work.append((tgt, st2))
    return states, parent


def witness(cfg, parent, nid, st):
    """Reconstruct the node path that first led to (nid, st)."""
    path = []
    cur = (nid, st)
    while cur is not None:
        path.append(cur[0])
        cur = parent.get(cur)
    path.reverse()
    return path


def path_lines(cfg, path, rel=""):
    out = []
    for nid in path:
        n = cfg.nodes[nid]
        if n.line and (not out or out[-1] != n.line):
            out.append(n.line)
    return [f"{rel}:{l}" if rel else l for l in out]


def enumerate_paths(cfg, max_paths=20000, back_limit=1, labels_skip=("exc",)):
    """All entry->exit paths in which every node is visited at most
    ``back_limit + 1`` times (loops: zero and one iteration).  Yields lists of
    (node_id, label_taken)."""
    out = []
    exits = {cfg.exit.id, cfg.raise_exit.id}

    def go(nid, path, counts):
        if len(out) > max_paths:
            raise AnalysisError(f"path explosion in {cfg.name}")
        if nid in exits or not cfg.succ[nid]:
            out.append(path + [(nid, None)])
            return
        for lab, tgt in cfg.succ[nid]:
            if lab in labels_skip:
                continue
            c = counts.get(tgt, 0)
            if c > back_limit:
                continue
            counts[tgt] = c + 1
            go(tgt, path + [(nid, lab)], counts)
            counts[tgt] = c
    go(cfg.entry.id, [], {cfg.entry.id: 1})
    return out
