"""Per-property metadata used in evidence files (what is decided, what is
not, trusted base)."""

_TB_PY = ["CPython 3.12 `ast` parser", "sa.pycfg CFG construction",
          "frozen idiom tables in sa/rules (each entry carries its reason)"]
_TB_C = ["clang 14 front end (-ast-dump=json)", "sa.ccfg CFG construction",
         "CPython C-API model table in sa/capi.py"]

_PARTIAL = ("PARTIAL claim: the structural clauses listed here are decided for "
            "every path of /repo's current source; the behavioural statement "
            "as a whole (quantified over runtime values/histories) is not. ")

META = {
    "C01": dict(level="other", trusted_base=_TB_C + _TB_PY, explanation=_PARTIAL +
        "Decided: validate-before-store and value provenance in the C setters; "
        "NULL-implies-exception in all C validators; numeric conversion errors "
        "propagate unchanged; no Python validate() falls off its end; the "
        "complete decision table of the float range test over the ordering "
        "domain {<,=,>,unordered}; exclude-mask encoding agreement. Not "
        "decided: enumeration membership, regex/length, numpy dtype conversion."
        " Also decided: the complete decision table of the Array per-dimension shape test; the compiled validator installed after lazy class resolution belongs to the trait's own handler; Py{Tuple,List}_SET_ITEM only fill containers created on the same path."),
    "C02": dict(level="other", trusted_base=_TB_C + _TB_PY, explanation=_PARTIAL +
        "Decided: the identity pre-filter decision table of setattr_trait / "
        "setattr_event; comparison-mode tables; filter dominance and exception "
        "containment at every user-handler call site; agreement of the legacy "
        "and observe change filters; notifier-list snapshot before the first "
        "callback. Not decided: per-history call counts."
        " Also decided: a materialised default is silent only when the caller's gate is off or no notifier exists; setattr handlers announce to the accessed trait's notifier list; numeric conversion helpers return an exact-type argument as the same object; as_ctrait leaves the trait type's metadata intact; container notify loops iterate a snapshot."),
    "C03": dict(level="translation_validation", trusted_base=_TB_C + _TB_PY,
        explanation=_PARTIAL +
        "Decided: each stand-alone C validator equals its hand-duplicated arm "
        "in the compound validator (decision-table comparison); enum / handler "
        "table / set_validate case labels agree; fast-validate descriptor "
        "shapes built in Python satisfy the C arity checks; C range test equals "
        "the Python range test over the ordering domain; shared float/complex "
        "primitives. Not decided: equality of conversion results on values."
        " Also decided: T.set_validate(H.fast_validate) only where H is T's handler on that path; TraitCompound.set_validate fills the Python-order lists and the compiled table in lockstep (a nested compound contributes its whole table at its position)."),
    "C04": dict(level="other", trusted_base=_TB_PY, explanation=_PARTIAL +
        "Decided: every built-in mutator is overridden; only validator output "
        "or own contents reaches an underlying mutation (provenance, path "
        "sensitive); all validation precedes the mutation; the length guard "
        "dominates every length-changing mutation of TraitListObject; "
        "List/Dict/Set.validate wrap in Trait*Object; validators are bound to "
        "the inner trait. Not decided: the inner trait's own correctness, the "
        "numeric length expressions."),
    "C05": dict(level="other", trusted_base=_TB_C + _TB_PY, explanation=_PARTIAL +
        "Decided per TraitList mutator: at most one notify per path, only "
        "after the underlying mutation, none on failing paths; `removed` read "
        "before and `added` validated/read after the mutation; silence guards "
        "test exactly the delta operands; no validation evaluated lazily "
        "inside the mutation; each override performs the built-in operation "
        "it overrides with index/count arguments passed through; event "
        "factory purity; self-attribute closure; copy protocol; the C items-"
        "event retry loop re-reads object state; the integer position reported "
        "by __setitem__/__delitem__/pop/insert and the capture of the removed "
        "item, as decision tables over the orderings of the index against 0, "
        "len and -len. NOT decided: slice normalisation arithmetic."),
    "C06": dict(level="other", trusted_base=_TB_C + _TB_PY, explanation=_PARTIAL +
        "As C05 for TraitDict, plus purity of the dict event factory, "
        "membership typestate of validated keys (`added` keys known absent, "
        "`changed` keys known present in the pre-state), the key-absent "
        "precondition of setdefault's emulated store and element-wise deep "
        "copy of keys and values. Not decided: the dict algebra of deltas on "
        "values."),
    "C07": dict(level="other", trusted_base=_TB_C + _TB_PY, explanation=_PARTIAL +
        "As C05 for TraitSet, plus membership typestate of validated items "
        "(`added` is filtered against the pre-state or is post-state minus a "
        "pre-state snapshot), self-attribute closure and agreement of the "
        "copy protocol across the six container classes. Not decided: set "
        "algebra on values."),
    "C08": dict(level="other", trusted_base=_TB_C + _TB_PY, explanation=_PARTIAL +
        "Decided: maintainer polarity in every observer; hook-up projection "
        "equals maintenance projection; instance-trait mode; notify flag gates "
        "user notifiers; IObserver exhaustiveness. Not decided: reachability "
        "after arbitrary histories."),
    "C09": dict(level="other", trusted_base=_TB_C + _TB_PY, explanation=_PARTIAL +
        "Decided: undo-log completeness over the registration call graph; "
        "add_to/remove_from symmetry; weak-only storage of target and method "
        "owner; __init__/__eq__/__hash__ field agreement. Not decided: the "
        "n-adds/n-removes algebra, GC timing."
        " Also decided: equals() compares weakly held fields through their referents and the target by identity."),
    "C10": dict(level="other", trusted_base=_TB_C + _TB_PY, explanation=_PARTIAL +
        "Decided: every mutable default kind returns a fresh object; the "
        "Uninitialized sentinel agreement; clone-before-mutate on shared "
        "CTraits; instance traits get their own notifier list; writers of the "
        "class trait dictionary. Not decided: isolation for arbitrary "
        "operation interleavings."
        " Also decided: get_trait hands out a class-level trait only when no instance trait was requested."),
    "C11": dict(level="other", trusted_base=_TB_C + _TB_PY, explanation=_PARTIAL +
        "Decided: agreement of the four prefix styles between Delegate."
        "__init__, the C name mappers and the listener pattern over a "
        "string-shape domain; argument roles in setattr_delegate; listener "
        "attach/detach pairing; recursion bound on delegation chains. Not "
        "decided: read/write agreement over histories."),
    "C12": dict(level="other", trusted_base=_TB_C + _TB_PY, explanation=_PARTIAL +
        "Decided: cache-key agreement chain decorator/metadata/invalidator; "
        "the metaclass rebuilds the dependency observer for every observed "
        "property from the final trait alone; pop-before-notify; observers "
        "installed before state in all three lifecycles. Not decided: "
        "completeness of declared dependencies."),
    "C13": dict(level="other", trusted_base=_TB_C + _TB_PY, explanation=_PARTIAL +
        "Decided: lookup-order idiom agreement at the C lookup sites; TraitKind "
        "vs handler tables; effect analysis (constant/disallow/event never "
        "write); read-only write guard; prefix list re-sorted after append; "
        "strict/private class rules. Not decided: resolution for every "
        "concrete name and hierarchy."
        " Also decided: the status of the dictionary store that caches a resolved prefix trait is not discarded; _add_class_trait stores into a class table only after a membership test found the name absent (a subclass's own definition is never replaced)."),
    "C14": dict(level="other", trusted_base=_TB_C + _TB_PY, explanation=_PARTIAL +
        "Decided: lifecycle sibling agreement (has_traits_init, __setstate__, "
        "clone_traits) including both halves of the legacy-listener set-up; "
        "state restored through trait_set with delegate overrides replayed "
        "last; container copy protocol agreement with element-wise deep copy; "
        "item-by-item agreement of CTrait.__getstate__/__setstate__ (field, "
        "function table, format; restored flag bits not masked); __getstate__ "
        "table membership and __setstate__ index bounds; the tp_dictoffset "
        "field only receives NULL or a dictionary. Not decided: value "
        "equality of copies."),
    "C15": dict(level="other", trusted_base=_TB_PY + ["lark 1.3.1 grammar loader"],
        explanation=_PARTIAL +
        "Decided: the embedded parser tables vs the documented grammar as "
        "token languages up to a bound; FOLLOW-set proof that '*' is terminal; "
        ".lark vs embedded rules; rule names vs handler table; notify-flag data "
        "flow; uniqueness precondition of ObserverGraph; '+name' builds a "
        "MetadataFilter whose test is `is not None`. Not decided: meaning "
        "per string."),
    "C16": dict(level="other", trusted_base=_TB_C + _TB_PY, explanation=_PARTIAL +
        "Decided: listener re-registration polarity in every handle_*; every "
        "unregistration precedes every registration within one event; remove "
        "flag threaded to every (un)registration; remove path disposes; both "
        "halves of the static-listener set-up run on every construction "
        "path; handle_dst is silent only for a link without previous value or "
        "a dead handler. Not decided: agreement with observe over histories."),
    "C18": dict(level="other", trusted_base=_TB_C, explanation=_PARTIAL +
        "Decided: dispatch-table index bounds; func_index table membership; "
        "GC-protocol exhaustiveness; local reference-ownership typestate "
        "(leak / release of borrowed / use after release / borrowed value "
        "used across a callback) on every path; struct-field replacement "
        "discipline (acquire new, store, release old; never released twice; "
        "never overwritten unreleased); retry loops re-read object state; "
        "error discipline. Not decided: whole-program memory safety, "
        "finalizer re-entrancy."
        " Also decided: an int status that user code can make fail is not discarded on the way to a success return; tp_getset setters test for deletion (NULL) first; results of fallible in-file calls are checked before use; SET_ITEM macros only on containers created on the same path; references received through PyErr_Fetch-style out-parameters are balanced."),
    "C19": dict(level="other", trusted_base=_TB_C + _TB_PY, explanation=_PARTIAL +
        "Decided: validate-then-mutate in containers; compute-then-store in "
        "the C getters/setters; try/finally pairing of notification "
        "suppression; handler containment; undo-log completeness; PyErr_Clear "
        "only after a test for a specific exception class or at a confirmed "
        "abandon-this-alternative site. Not "
        "decided: fault injection at every k-th callback (dynamic)."),
    "C20": dict(level="other", trusted_base=_TB_C + _TB_PY, explanation=_PARTIAL +
        "Decided: lock window contains every propagating assignment; the "
        "dominating lock test asks about exactly the (partner, partner-side "
        "name) pair written; add/remove registration pairing; weak partner "
        "reference. Not decided: convergence of values."),
}
for _k, _v in META.items():
    _v.setdefault("assumptions", [
        "the analysed source files are what the build ships "
        "(traits/*.py, traits/observation/*.py, traits/ctraits.c)",
        "CPython 3.12 semantics for the built-in list/dict/set and the C API "
        "as modelled in the tables",
    ])
