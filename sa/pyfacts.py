"""E-PY: Python program facts for /repo/traits obtained with ``ast`` only."""
from __future__ import annotations

import ast
import builtins
import copy
import os

from .core import AnalysisError

EXCLUDE_DIRS = {"tests", "testing", "examples", "stubs_tests", "etsconfig",
                "util", "__pycache__"}


class Module:
    def __init__(self, rel, src):
        self.rel = rel
        self.src = src
        try:
            self.tree = ast.parse(src, filename=rel)
        except SyntaxError as e:
            raise AnalysisError(f"cannot parse {rel}: {e}")
        self.lines = src.splitlines()
        self.functions = {}   # qualname -> FunctionDef
        self.classes = {}     # name -> ClassInfo
        self.imports = {}     # local name -> (module, name) / (module, None)
        self.assigns = {}     # module-level name -> value node
        self._index()

    def _index(self):
        for node in self.tree.body:
            self._index_stmt(node, prefix="", cls=None)

    def _index_stmt(self, node, prefix, cls):
        if isinstance(node, (ast.FunctionDef, ast.AsyncFunctionDef)):
            qn = prefix + node.name
            # first definition wins for module functions guarded by `if`
            self.functions.setdefault(qn, node)
            if cls is not None:
                cls.methods.setdefault(node.name, node)
        elif isinstance(node, ast.ClassDef):
            ci = ClassInfo(self, node, prefix + node.name)
            self.classes[prefix + node.name] = ci
            for sub in node.body:
                self._index_stmt(sub, prefix + node.name + ".", ci)
        elif isinstance(node, (ast.If, ast.Try)):
            # definitions under `if sys.version_info ...` / try-import
            for fld in ("body", "orelse", "handlers", "finalbody"):
                for sub in getattr(node, fld, []):
                    if isinstance(sub, ast.ExceptHandler):
                        for s2 in sub.body:
                            self._index_stmt(s2, prefix, cls)
                    else:
                        self._index_stmt(sub, prefix, cls)
        elif isinstance(node, ast.ImportFrom):
            for a in node.names:
                self.imports[a.asname or a.name] = (
                    "." * node.level + (node.module or ""), a.name)
        elif isinstance(node, ast.Import):
            for a in node.names:
                self.imports[a.asname or a.name.split(".")[0]] = (a.name, None)
        elif isinstance(node, ast.Assign):
            for t in node.targets:
                if isinstance(t, ast.Name):
                    if cls is not None:
                        cls.attrs[t.id] = node.value
                    else:
                        self.assigns[t.id] = node.value
        elif isinstance(node, ast.AnnAssign) and isinstance(node.target, ast.Name):
            if cls is not None:
                cls.attrs[node.target.id] = node.value
            else:
                self.assigns[node.target.id] = node.value

    def loc(self, node):
        return f"{self.rel}:{getattr(node, 'lineno', 0)}"

    def seg(self, node):
        return ast.get_source_segment(self.src, node) or ""


class ClassInfo:
    def __init__(self, module, node, qualname):
        self.module = module
        self.node = node
        self.name = qualname
        self.methods = {}
        self.attrs = {}
        self.base_names = []
        for b in node.bases:
            if isinstance(b, ast.Name):
                self.base_names.append(b.id)
            elif isinstance(b, ast.Attribute):
                self.base_names.append(b.attr)
            else:
                self.base_names.append(ast.unparse(b))

    def __repr__(self):
        return f"<class {self.module.rel}:{self.name}>"


class PyRepo:
    """All analysed modules of /repo/traits."""

    def __init__(self, ctx):
        self.ctx = ctx
        self.modules = {}
        root = ctx.path("traits")
        if not os.path.isdir(root):
            raise AnalysisError("anchor directory traits/ missing")
        rels = []
        for d, dirs, files in os.walk(root):
            dirs[:] = sorted(x for x in dirs if x not in EXCLUDE_DIRS)
            for f in sorted(files):
                if f.endswith(".py"):
                    rels.append(os.path.relpath(os.path.join(d, f), ctx.repo))
        for rel in ctx.overlay:
            if rel.endswith(".py") and rel not in rels:
                rels.append(rel)
        for rel in rels:
            self.modules[rel] = Module(rel, ctx.read(rel))
        self.class_index = {}
        for m in self.modules.values():
            for ci in m.classes.values():
                self.class_index.setdefault(ci.name.split(".")[-1], []).append(ci)

    # -- lookups (fail closed) ---------------------------------------------

    def module(self, rel):
        if rel not in self.modules:
            raise AnalysisError(f"anchor module missing: {rel}")
        return self.modules[rel]

    def cls(self, rel, name):
        m = self.module(rel)
        if name not in m.classes:
            raise AnalysisError(f"anchor class missing: {rel}:{name}")
        return m.classes[name]

    def func(self, rel, qualname):
        m = self.module(rel)
        if qualname not in m.functions:
            raise AnalysisError(f"anchor function missing: {rel}:{qualname}")
        return m.functions[qualname]

    def inlined(self, rel, qualname, keep=()):
        """the function with calls of small private helpers of its class /
        module replaced by their bodies (memoised); helpers named in ``keep``
        are left as calls"""
        key = (rel, qualname, tuple(sorted(keep)))
        cache = self.__dict__.setdefault("_inl_cache", {})
        if key not in cache:
            mod = self.module(rel)
            fn = self.func(rel, qualname)
            cls = None
            if "." in qualname:
                cname = qualname.rsplit(".", 1)[0]
                cls = mod.classes.get(cname)
            cache[key] = inline_helpers(mod, cls, fn, keep=frozenset(keep))
        return cache[key]

    def has_func(self, rel, qualname):
        return rel in self.modules and qualname in self.modules[rel].functions

    def find_class(self, name, near=None):
        """Resolve a class name, preferring the module ``near``."""
        cands = self.class_index.get(name, [])
        if near is not None:
            for c in cands:
                if c.module is near:
                    return c
            imp = near.imports.get(name)
            if imp:
                modname = imp[0].lstrip(".")
                for c in cands:
                    dotted = c.module.rel[:-3].replace("/", ".")
                    if dotted.endswith(modname):
                        return c
        return cands[0] if len(cands) >= 1 else None

    def mro(self, ci):
        """Linearised repo-internal ancestors (simple DFS; the classes in
        scope use single inheritance or mixins without diamonds).  Built-in
        bases are returned as strings."""
        out, seen = [], set()

        def go(c):
            if id(c) in seen:
                return
            seen.add(id(c))
            out.append(c)
            for b in c.base_names:
                bc = self.find_class(b, c.module)
                if bc is not None:
                    go(bc)
                else:
                    out.append(b)
        go(ci)
        return out

    def resolve_method(self, ci, name, after=None):
        """Definer of ``name`` for class ``ci``; with ``after`` (a ClassInfo)
        start after that class in the mro (``super()`` semantics).  Returns
        (ClassInfo, FunctionDef) or ('builtin', typename) or None."""
        mro = self.mro(ci)
        start = 0
        if after is not None:
            for i, c in enumerate(mro):
                if c is after:
                    start = i + 1
                    break
        for c in mro[start:]:
            if isinstance(c, str):
                bt = getattr(builtins, c, None)
                if isinstance(bt, type) and hasattr(bt, name):
                    return ("builtin", c)
                continue
            if name in c.methods:
                return (c, c.methods[name])
        return None

    def builtin_base(self, ci):
        for c in self.mro(ci):
            if isinstance(c, str) and isinstance(getattr(builtins, c, None), type):
                return c
        return None

    def analysed_files(self):
        return sorted(self.modules)


def get_pyrepo(ctx):
    return ctx.memo("pyrepo", lambda: PyRepo(ctx))


# --------------------------------------------------------------------------
# small AST helpers used by many rules

def is_self_attr(node, attr=None, selfname="self"):
    return (isinstance(node, ast.Attribute)
            and isinstance(node.value, ast.Name) and node.value.id == selfname
            and (attr is None or node.attr == attr))


def is_super_call(node):
    """``super().m(...)`` -> method name, else None."""
    if isinstance(node, ast.Call) and isinstance(node.func, ast.Attribute):
        v = node.func.value
        if isinstance(v, ast.Call) and isinstance(v.func, ast.Name) \
                and v.func.id == "super":
            return node.func.attr
    return None


def is_self_call(node, name=None, selfname="self"):
    if isinstance(node, ast.Call) and is_self_attr(node.func, None, selfname):
        if name is None or node.func.attr == name:
            return node.func.attr
    return None


def call_name(node):
    """Dotted name of a call's callee, or None."""
    if not isinstance(node, ast.Call):
        return None
    return dotted(node.func)


def dotted(node):
    if isinstance(node, ast.Name):
        return node.id
    if isinstance(node, ast.Attribute):
        b = dotted(node.value)
        return None if b is None else b + "." + node.attr
    if isinstance(node, ast.Call) and isinstance(node.func, ast.Name) \
            and node.func.id == "super" and not node.args:
        return "super()"
    return None


def eval_order(node):
    """Yield sub-expressions of ``node`` in (approximate) evaluation order,
    children before the parent (post-order).  Good enough for ordering events
    inside one statement: Python evaluates operands left to right and a call's
    arguments before the call itself.  Comprehensions: the element expression
    is yielded after the iterables; lambda bodies are not entered."""
    if isinstance(node, ast.Lambda):
        yield node
        return
    if isinstance(node, (ast.ListComp, ast.SetComp, ast.GeneratorExp)):
        for g in node.generators:
            yield from eval_order(g.iter)
            for c in g.ifs:
                yield from eval_order(c)
        yield from eval_order(node.elt)
        yield node
        return
    if isinstance(node, ast.DictComp):
        for g in node.generators:
            yield from eval_order(g.iter)
            for c in g.ifs:
                yield from eval_order(c)
        yield from eval_order(node.key)
        yield from eval_order(node.value)
        yield node
        return
    if isinstance(node, ast.Call):
        yield from eval_order(node.func)
        for a in node.args:
            yield from eval_order(a)
        for k in node.keywords:
            yield from eval_order(k.value)
        yield node
        return
    if isinstance(node, ast.Assign):
        yield from eval_order(node.value)
        for t in node.targets:
            yield from eval_order(t)
        yield node
        return
    if isinstance(node, ast.AugAssign):
        yield from eval_order(node.target)
        yield from eval_order(node.value)
        yield node
        return
    for ch in ast.iter_child_nodes(node):
        if isinstance(ch, (ast.expr_context, ast.operator, ast.cmpop,
                           ast.boolop, ast.unaryop)):
            continue
        yield from eval_order(ch)
    yield node


def names_in(node):
    return {n.id for n in ast.walk(node) if isinstance(n, ast.Name)}


def norm(node):
    """Normalised text of an expression/statement (position independent)."""
    return ast.unparse(node)


# ---------------------------------------------------------------------------
# inlining of small private helpers (so that extracting a block into a
# helper, a routine refactoring, does not hide events from an
# intraprocedural analysis)

class _Renamer(ast.NodeTransformer):
    def __init__(self, mapping):
        self.mapping = mapping

    def visit_Name(self, node):
        if node.id in self.mapping:
            new = copy.deepcopy(self.mapping[node.id])
            if isinstance(new, ast.Name):
                new.ctx = node.ctx
            return ast.copy_location(new, node)
        return node


def _inlinable(fn):
    a = fn.args
    if a.vararg or a.kwarg or fn.decorator_list:
        return False
    for n in ast.walk(fn):
        if n is not fn and isinstance(n, (ast.FunctionDef, ast.Lambda,
                                          ast.AsyncFunctionDef, ast.ClassDef,
                                          ast.Yield, ast.YieldFrom,
                                          ast.Global, ast.Nonlocal)):
            return False
    body = [s for s in fn.body if not (isinstance(s, ast.Expr) and isinstance(
        s.value, ast.Constant) and isinstance(s.value.value, str))]
    if not body:
        return False
    # every `return` must be (convertible to) a tail position: the last
    # statement, or the end of an if/else arm whose continuation can be
    # moved into the other arm (guard clauses / early returns)
    return _tail_returns(copy.deepcopy(body)) is not None


def _tail_returns(stmts):
    """``stmts`` restructured so that every ``return`` is in tail position
    (guard clauses `if C: ...; return X` followed by more statements become
    `if C: ...; return X` / `else: <rest>`); None when a return sits inside a
    loop, try or with block."""
    def has_ret(nodes):
        return any(isinstance(n, ast.Return) for s in nodes
                   for n in ast.walk(s))

    def always_returns(block):
        if not block:
            return False
        last = block[-1]
        if isinstance(last, (ast.Return, ast.Raise)):
            return True
        if isinstance(last, ast.If) and last.orelse:
            return always_returns(last.body) and always_returns(last.orelse)
        return False

    out = []
    for i, st in enumerate(stmts):
        rest = stmts[i + 1:]
        if isinstance(st, ast.Return):
            out.append(st)
            return out          # anything after it is dead
        if not has_ret([st]):
            out.append(st)
            continue
        if not isinstance(st, ast.If):
            return None
        body_r, else_r = always_returns(st.body), always_returns(st.orelse)
        if rest and body_r and not else_r:
            st.orelse = list(st.orelse) + rest
            rest = []
        elif rest and else_r and not body_r:
            st.body = list(st.body) + rest
            rest = []
        elif rest and not (body_r and else_r):
            return None
        b = _tail_returns(st.body)
        o = _tail_returns(st.orelse) if st.orelse else []
        if b is None or o is None:
            return None
        st.body, st.orelse = b, o
        out.append(st)
        if not rest:
            return out
        return out              # both arms return: rest is dead
    return out


def _predicate_body(body):
    """the condition C of a helper of the form `if C: return True` followed
    by `return False` (or with an else branch, or with the constants
    swapped: `not C`); None otherwise.  Only the truth value is preserved,
    which is what a caller that branches on the result observes."""
    def const(r, v):
        return isinstance(r, ast.Return) and isinstance(r.value, ast.Constant) \
            and r.value.value is v
    if len(body) == 2 and isinstance(body[0], ast.If) \
            and not body[0].orelse and len(body[0].body) == 1:
        t, f = body[0].body[0], body[1]
    elif len(body) == 1 and isinstance(body[0], ast.If) \
            and len(body[0].body) == 1 and len(body[0].orelse) == 1:
        t, f = body[0].body[0], body[0].orelse[0]
    else:
        return None
    c = body[0].test
    if const(t, True) and const(f, False):
        return copy.deepcopy(c)
    if const(t, False) and const(f, True):
        return ast.UnaryOp(ast.Not(), copy.deepcopy(c))
    return None


def inline_helpers(module, cls, fn, depth=2, _counter=[0], keep=frozenset()):
    """Copy of ``fn`` in which statement-level calls of private helpers
    defined in the same class (``self._h(...)``) or module (``_h(...)``) are
    replaced by the helper's body.  Only helpers with plain parameters, no
    nested scopes and at most one trailing ``return`` are inlined; everything
    else is left alone."""
    fn = copy.deepcopy(fn)
    selfn = fn.args.args[0].arg if fn.args.args else None

    def callee_of(call):
        f = call.func
        if (isinstance(f, ast.Attribute) and f.attr in keep) or (
                isinstance(f, ast.Name) and f.id in keep):
            return None, False
        if isinstance(f, ast.Attribute) and isinstance(f.value, ast.Name) \
                and f.value.id == selfn and cls is not None \
                and f.attr.startswith("_") and not f.attr.startswith("__") \
                and f.attr in cls.methods and cls.methods[f.attr] is not None:
            return cls.methods[f.attr], True
        if isinstance(f, ast.Name) and f.id in module.functions \
                and (f.id.startswith("_")
                     or f.id in getattr(module, "local_closures", ())):
            return module.functions[f.id], False
        return None, False

    def expand(stmt, level):
        call = None
        if isinstance(stmt, ast.Expr) and isinstance(stmt.value, ast.Call):
            call = stmt.value
        elif isinstance(stmt, (ast.Assign, ast.Return)) and isinstance(
                stmt.value, ast.Call):
            call = stmt.value
        if call is None or level <= 0:
            return None
        target, is_method = callee_of(call)
        if target is None or target.name == fn.name or not _inlinable(target):
            return None
        if any(isinstance(a, ast.Starred) for a in call.args) or any(
                k.arg is None for k in call.keywords):
            return None
        _counter[0] += 1
        tag = f"_inl{_counter[0]}_"
        params = [a.arg for a in target.args.args]
        defaults = target.args.defaults
        bind = {}
        if is_method:
            bind[params[0]] = ast.Name(selfn, ast.Load())
            params = params[1:]
        for p, a in zip(params, call.args):
            bind[p] = a
        for k in call.keywords:
            bind[k.arg] = k.value
        dmap = dict(zip([a.arg for a in target.args.args][-len(defaults):],
                        defaults)) if defaults else {}
        pre = []
        mapping = {}
        for p in ([target.args.args[0].arg] if is_method else []) + params:
            v = bind.get(p, dmap.get(p))
            if v is None:
                return None
            if isinstance(v, (ast.Name, ast.Constant)):
                mapping[p] = v
            else:
                tmp = ast.Name(tag + p, ast.Store())
                pre.append(ast.copy_location(
                    ast.Assign([tmp], copy.deepcopy(v)), stmt))
                mapping[p] = ast.Name(tag + p, ast.Load())
        body = copy.deepcopy(target.body)
        local_names = set()
        for s in body:
            for n in ast.walk(s):
                if isinstance(n, ast.Name) and isinstance(n.ctx, ast.Store) \
                        and n.id not in mapping:
                    local_names.add(n.id)
        # a parameter that the helper re-binds becomes a local
        rebinds = {n.id for s in body for n in ast.walk(s)
                   if isinstance(n, ast.Name) and isinstance(n.ctx, ast.Store)
                   and n.id in mapping}
        for p in rebinds:
            tmp = ast.Name(tag + p, ast.Store())
            pre.append(ast.copy_location(
                ast.Assign([tmp], copy.deepcopy(mapping[p])), stmt))
            mapping[p] = ast.Name(tag + p, ast.Load())
        for n in local_names:
            mapping[n] = ast.Name(tag + n, ast.Load())
        ren = _Renamer(mapping)
        new_body = []
        for s in body:
            if isinstance(s, ast.Expr) and isinstance(s.value, ast.Constant) \
                    and isinstance(s.value.value, str):
                continue
            new_body.append(ren.visit(s))
        out = pre
        new_body = _tail_returns(new_body)
        if new_body is None:
            return None

        def tail_of(ret):
            val = (ret.value if ret is not None else None) or ast.Constant(None)
            if isinstance(stmt, ast.Assign):
                return ast.Assign(copy.deepcopy(stmt.targets), val)
            if isinstance(stmt, ast.Return):
                return ast.Return(val)
            return ast.Expr(val)

        def close(block):
            """replace the tail `return` of a block by the caller's action; a
            block that falls off its end yields None"""
            if block and isinstance(block[-1], ast.Return):
                ret = block.pop()
                block.append(ast.copy_location(tail_of(ret), ret))
            elif block and isinstance(block[-1], ast.Raise):
                pass
            elif block and isinstance(block[-1], ast.If) and any(
                    isinstance(n, ast.Return) for n in ast.walk(block[-1])):
                close(block[-1].body)
                if not block[-1].orelse:
                    block[-1].orelse = []
                close(block[-1].orelse)
            elif not isinstance(stmt, ast.Expr):
                block.append(ast.copy_location(tail_of(None), stmt))
            return block
        new_body = close(new_body)
        out = out + new_body
        for s in out:
            ast.fix_missing_locations(s)
        return process(out, level - 1)

    def process(stmts, level):
        res = []
        for s in stmts:
            ex = expand(s, level)
            if ex is not None:
                res.extend(ex)
                continue
            for field in ("body", "orelse", "finalbody"):
                sub = getattr(s, field, None)
                if isinstance(sub, list) and sub and isinstance(sub[0],
                                                                ast.stmt):
                    setattr(s, field, process(sub, level))
            if isinstance(s, ast.Try):
                for h in s.handlers:
                    h.body = process(h.body, level)
            res.append(s)
        return res
    fn.body = process(fn.body, depth)

    # expression-level: helpers whose body is a single `return <expr>`
    def expr_helper(call):
        target, is_method = callee_of(call)
        if target is None or target.name == fn.name:
            return None
        a = target.args
        if a.vararg or a.kwarg or target.decorator_list:
            return None
        body = [s for s in target.body if not (
            isinstance(s, ast.Expr) and isinstance(s.value, ast.Constant)
            and isinstance(s.value.value, str))]
        pred = _predicate_body(body)
        if pred is not None:
            # `if C: return True` / `return False`: the truth value of C
            body = [ast.copy_location(ast.Return(pred), body[0])]
        elif len(body) > 1 or (body and isinstance(body[0], ast.If)):
            # `if C: return A` ... `return B`: the conditional expression
            def conv(stmts):
                if not stmts:
                    return None
                st = stmts[0]
                if isinstance(st, ast.Return) and st.value is not None:
                    return copy.deepcopy(st.value)
                if isinstance(st, ast.If) and len(st.body) == 1 \
                        and isinstance(st.body[0], ast.Return) \
                        and st.body[0].value is not None:
                    rest = conv(st.orelse if st.orelse else stmts[1:])
                    if rest is None:
                        return None
                    return ast.IfExp(copy.deepcopy(st.test),
                                     copy.deepcopy(st.body[0].value), rest)
                return None
            ce = conv(body)
            if ce is not None:
                body = [ast.copy_location(ast.Return(ce), body[0])]
        if len(body) != 1 or not isinstance(body[0], ast.Return) \
                or body[0].value is None:
            return None
        if any(isinstance(n, (ast.Lambda, ast.Yield, ast.YieldFrom,
                              ast.NamedExpr)) for n in ast.walk(body[0])):
            return None
        if any(isinstance(x, ast.Starred) for x in call.args) or any(
                k.arg is None for k in call.keywords):
            return None
        params = [x.arg for x in a.args]
        mapping = {}
        if is_method:
            mapping[params[0]] = ast.Name(selfn, ast.Load())
            params = params[1:]
        if len(call.args) > len(params):
            return None
        for p_, v in zip(params, call.args):
            mapping[p_] = v
        for k in call.keywords:
            mapping[k.arg] = k.value
        dflt = dict(zip([x.arg for x in a.args][-len(a.defaults):],
                        a.defaults)) if a.defaults else {}
        for p_ in params:
            if p_ not in mapping:
                if p_ not in dflt:
                    return None
                mapping[p_] = dflt[p_]
        # arguments are substituted textually: only side-effect-free ones
        for v in mapping.values():
            if any(isinstance(n, (ast.Call, ast.Yield, ast.NamedExpr))
                   for n in ast.walk(v)) and sum(
                    1 for n in ast.walk(body[0].value)
                    if isinstance(n, ast.Name)) > 12:
                return None
        return _Renamer(mapping).visit(copy.deepcopy(body[0].value))

    class _ExprInl(ast.NodeTransformer):
        def visit_Call(self, node):
            self.generic_visit(node)
            new = expr_helper(node)
            if new is not None:
                return ast.copy_location(new, node)
            return node
    for _ in range(2):
        fn = _ExprInl().visit(fn)
    ast.fix_missing_locations(fn)
    return fn


def expand_locals(fn, expr, depth=4):
    """``expr`` with every local name that has exactly one plain definition
    in ``fn`` (``name = <expression>``) replaced by that definition,
    recursively.  Parameters, loop variables and names bound by unpacking
    stay as they are.  Used to compare expressions modulo temporaries."""
    defs = {}
    multi = set()
    params = {a.arg for a in fn.args.args + fn.args.kwonlyargs}
    for n in ast.walk(fn):
        if isinstance(n, ast.Assign):
            for t in n.targets:
                if isinstance(t, ast.Name):
                    if t.id in defs or len(n.targets) > 1:
                        multi.add(t.id)
                    defs[t.id] = n.value
                else:
                    for x in ast.walk(t):
                        if isinstance(x, ast.Name):
                            multi.add(x.id)
        elif isinstance(n, (ast.AugAssign, ast.For, ast.comprehension,
                            ast.With, ast.NamedExpr)):
            tgt = getattr(n, "target", None)
            if tgt is not None:
                for x in ast.walk(tgt):
                    if isinstance(x, ast.Name):
                        multi.add(x.id)
    usable = {k: v for k, v in defs.items()
              if k not in multi and k not in params}
    e = copy.deepcopy(expr)
    for _ in range(depth):
        changed = [False]

        class T(ast.NodeTransformer):
            def visit_Name(self, node):
                if isinstance(node.ctx, ast.Load) and node.id in usable:
                    changed[0] = True
                    return copy.deepcopy(usable[node.id])
                return node
        e = T().visit(e)
        if not changed[0]:
            break
    return e


def lower_ifexp_assign(fn):
    """copy of ``fn`` in which `x = a if c else b` is written as an if/else
    statement (so that a path-sensitive flow sees the two cases)"""
    fn = copy.deepcopy(fn)

    class T(ast.NodeTransformer):
        def visit_Expr(self, node):
            # `f(.., a if c else b)` as a statement: the two calls
            v = node.value
            if isinstance(v, ast.Call):
                for i, a in enumerate(v.args):
                    if isinstance(a, ast.IfExp):
                        c1, c2 = copy.deepcopy(v), copy.deepcopy(v)
                        c1.args[i], c2.args[i] = a.body, a.orelse
                        new = ast.If(a.test, [ast.Expr(c1)], [ast.Expr(c2)])
                        ast.copy_location(new, node)
                        for b in new.body + new.orelse:
                            ast.copy_location(b, node)
                        ast.fix_missing_locations(new)
                        return new
            return node

        def visit_Assign(self, node):
            if isinstance(node.value, ast.IfExp):
                v = node.value
                new = ast.If(
                    v.test,
                    [ast.Assign(copy.deepcopy(node.targets), v.body)],
                    [ast.Assign(copy.deepcopy(node.targets), v.orelse)])
                ast.copy_location(new, node)
                for b in new.body + new.orelse:
                    ast.copy_location(b, node)
                ast.fix_missing_locations(new)
                return new
            return node
    return T().visit(fn)


def atomic_facts(fn, test, truth):
    """The atomic facts established by ``test`` evaluating to ``truth``:
    a set of ('T'|'F', normalised atom text).  `not X` flips the polarity,
    a false `A or B` / true `A and B` establishes both operands, and a flag
    local with a single definition stands for its defining expression."""
    out = set()

    def go(e, t, depth=0):
        if isinstance(e, ast.UnaryOp) and isinstance(e.op, ast.Not):
            return go(e.operand, not t, depth)
        if isinstance(e, ast.BoolOp):
            is_and = isinstance(e.op, ast.And)
            if is_and == t:
                for v in e.values:
                    go(v, t, depth)
                return
            out.add(("T" if t else "F", norm(e)))
            return
        if isinstance(e, ast.Name) and depth < 3 and fn is not None:
            x = expand_locals(fn, e, depth=1)
            if not isinstance(x, ast.Name) and isinstance(
                    x, (ast.BoolOp, ast.Compare, ast.UnaryOp, ast.Call)):
                out.add(("T" if t else "F", norm(e)))
                return go(x, t, depth + 1)
        out.add(("T" if t else "F", norm(e)))
    go(test, truth)
    return out


def inline_nested(module, fn, cls=None):
    """copy of ``fn`` in which the module's private helpers are inlined into
    ``fn`` itself and into every function nested in it (closures, decorator
    wrappers)"""
    fn = copy.deepcopy(fn)

    def visit(node):
        for field in ("body", "orelse", "finalbody"):
            blk = getattr(node, field, None)
            if not isinstance(blk, list):
                continue
            for i, st in enumerate(blk):
                if isinstance(st, ast.FunctionDef):
                    visit(st)
                    blk[i] = inline_helpers(module, None, st)
                elif isinstance(st, ast.stmt):
                    visit(st)
        for h in getattr(node, "handlers", []) or []:
            visit(h)
    visit(fn)
    try:
        return inline_helpers(module, cls, fn)
    except Exception:
        return fn


def normalize_guards(fn):
    """copy of ``fn`` in which guard clauses are written as nested
    conditionals: `if C: ...; continue/return/break` followed by more
    statements becomes `if C: ... else: <rest>`, and a bare negative guard
    `if not C: continue` becomes `if C: <rest> else: continue`.  The set of
    paths is unchanged; rules that look for "the branch in which C holds"
    then see one shape."""
    fn = copy.deepcopy(fn)
    EXITS = (ast.Continue, ast.Return, ast.Break, ast.Raise)

    def block(stmts):
        out = []
        for i, st in enumerate(stmts):
            for field in ("body", "orelse", "finalbody"):
                sub = getattr(st, field, None)
                if isinstance(sub, list) and sub and isinstance(sub[0], ast.stmt):
                    setattr(st, field, block(sub))
            for h in getattr(st, "handlers", []) or []:
                h.body = block(h.body)
            rest = stmts[i + 1:]
            if isinstance(st, ast.If) and not st.orelse and rest \
                    and st.body and isinstance(st.body[-1], EXITS):
                rest = block(rest)
                if isinstance(st.test, ast.UnaryOp) and isinstance(
                        st.test.op, ast.Not) and len(st.body) == 1:
                    new = ast.If(st.test.operand, rest, st.body)
                else:
                    new = ast.If(st.test, st.body, rest)
                out.append(ast.copy_location(new, st))
                return out
            out.append(st)
        return out
    fn.body = block(fn.body)
    ast.fix_missing_locations(fn)
    return fn


def loops_to_comprehensions(fn):
    """copy of ``fn`` in which a collection built by a plain loop

        X = set() / [] / {} / list() / dict()
        for T in ITER:
            X.add(E) | X.append(E) | X[K] = V

    (no other use of X in between) is written as the comprehension it is.
    Rules that recognise the comprehension form then see both spellings."""
    fn = copy.deepcopy(fn)

    def empty_kind(v):
        if isinstance(v, ast.List) and not v.elts:
            return "list"
        if isinstance(v, ast.Dict) and not v.keys:
            return "dict"
        if isinstance(v, ast.Call) and isinstance(v.func, ast.Name) \
                and not v.args and not v.keywords \
                and v.func.id in ("set", "list", "dict"):
            return v.func.id
        return None

    def block(stmts):
        out = list(stmts)
        i = 0
        while i < len(out):
            st = out[i]
            for field in ("body", "orelse", "finalbody"):
                sub = getattr(st, field, None)
                if isinstance(sub, list) and sub and isinstance(sub[0], ast.stmt):
                    setattr(st, field, block(sub))
            for h in getattr(st, "handlers", []) or []:
                h.body = block(h.body)
            if isinstance(st, ast.Assign) and len(st.targets) == 1 \
                    and isinstance(st.targets[0], ast.Name) \
                    and empty_kind(st.value):
                x, kind = st.targets[0].id, empty_kind(st.value)
                # the next statement that mentions X must be the loop
                j = i + 1
                while j < len(out) and x not in {
                        n.id for n in ast.walk(out[j])
                        if isinstance(n, ast.Name)}:
                    j += 1
                if j < len(out) and isinstance(out[j], ast.For) \
                        and not out[j].orelse and len(out[j].body) == 1:
                    lp, b = out[j], out[j].body[0]
                    comp = None
                    gen = [ast.comprehension(lp.target, lp.iter, [], 0)]
                    if isinstance(b, ast.Expr) and isinstance(b.value, ast.Call) \
                            and isinstance(b.value.func, ast.Attribute) \
                            and isinstance(b.value.func.value, ast.Name) \
                            and b.value.func.value.id == x \
                            and len(b.value.args) == 1 and not b.value.keywords:
                        if b.value.func.attr == "add" and kind == "set":
                            comp = ast.SetComp(b.value.args[0], gen)
                        elif b.value.func.attr == "append" and kind == "list":
                            comp = ast.ListComp(b.value.args[0], gen)
                    elif isinstance(b, ast.Assign) and len(b.targets) == 1 \
                            and isinstance(b.targets[0], ast.Subscript) \
                            and isinstance(b.targets[0].value, ast.Name) \
                            and b.targets[0].value.id == x and kind == "dict":
                        comp = ast.DictComp(b.targets[0].slice, b.value, gen)
                    if comp is not None:
                        new = ast.Assign([ast.Name(x, ast.Store())], comp)
                        ast.copy_location(new, st)
                        ast.fix_missing_locations(new)
                        out[i] = new
                        del out[j]
                        continue
            i += 1
        return out
    fn.body = block(fn.body)
    return fn
